#!/bin/bash
# usage: seedwave.sh <dir> <x> <y>   e.g. seedwave.sh /tmp/wt8 o p
# processes the deliverables of one wave of seeded-change sub-agents (prepared with bin/seedprompts.sh):
# waits for <dir>/<ID>.out/<x|y>/meta.json, confirms each with bin/seedverify.sh, stores it under
# /verif/seeded/ and runs the check of its property against it (bin/seedprocess.sh).
WTD=$1; X=$2; Y=$3
for id in C01 C03 C05 C06 C07 C08 C09 C10 C12 C14 C15 C16 C17 C19 C20 C02 C11 C13; do
  for x in $X $Y; do
    while [ ! -f $WTD/$id.out/$x/meta.json ]; do sleep 30; done
    echo "##### $id$x"
    WT=$WTD /verif/bin/seedprocess.sh $id $x 2>&1 | tail -14 | cut -c1-400
  done
done
