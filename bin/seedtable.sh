#!/bin/bash
# Re-runs the registered checks against every seeded change and records the outcome in its meta.json.
# usage: seedtable.sh [tier] [ids...]
TIER=${1:-quick}; shift
IDS=${@:-$(ls /verif/seeded)}
for d in $IDS; do
  D=/verif/seeded/$d
  P=$(python3 -c "import json; print(json.load(open('$D/meta.json'))['property'])")
  X=$(grep "^$d " /verif/seeded/EXTRA_PROPS 2>/dev/null | cut -d' ' -f2- | tr ' ' ',')
  [ -n "$X" ] && P="$P,$X"
  T=$(mktemp /tmp/seedtable-XXXXXX)
  VERIF_MAX_GROUPS=1 VERIF_MIN_BUDGET=8 MUTANT_LINES=6 /verif/bin/mutant.sh "$D/patch.diff" "$P" "$TIER" > "$T" 2>&1; rc=$?
  python3 - "$D" "$rc" "$P" "$TIER" "$T" <<'PY'
import json,sys,re
dst,rc,prop,tier,tf=sys.argv[1],int(sys.argv[2]),sys.argv[3],sys.argv[4],sys.argv[5]
out=open(tf,errors='replace').read()
m=json.load(open(dst+'/meta.json'))
v=m.setdefault('verif',{})
oracles=sorted(set('%s [%s]'%o for o in re.findall(r'oracle=(\S+) sig=(\S+)', out)))
v['checks_run_'+tier]='bin/mutant.sh patch.diff %s %s -> exit %d' % (prop,tier,rc)
v['caught_'+tier]= rc==1
v['caught_by_'+tier]=[b[0] for b in re.findall(r'== (C\d+) exit=(\d+)', out) if b[1]=='1']
v['oracles_'+tier]=oracles[:6]
json.dump(m,open(dst+'/meta.json','w'),indent=1)
print("%s %s caught=%s by=%s exit=%d %s" % (dst.split('/')[-1], tier, rc==1, v['caught_by_'+tier], rc, '; '.join(oracles[:3])))
PY
  rm -f "$T"
done
