#!/bin/bash
# verify (applies, builds, baseline passes) and run the relevant checks for every agent-written benign patch benign/A-*.diff; then run bin/benignown.sh for the B* set
export GOFLAGS=-mod=mod GOPROXY=off GOSUMDB=off GOTOOLCHAIN=local
for f in /verif/benign/A-*.diff; do
  n=$(basename $f .diff); own=${n:2:3}
  W=/tmp/bv-$n; rm -rf $W; git -C /repo worktree add -q --detach $W HEAD
  ok=1
  (cd $W && git apply $f) || ok=0
  if [ $ok = 1 ]; then (cd $W && go build ./... && go test -vet=off -count=1 ./... > $W.log 2>&1) || ok=0; fi
  git -C /repo worktree remove --force $W; rm -f $W.log
  if [ $ok = 0 ]; then echo "### $n NOT-VALID (apply/build/baseline failed)"; continue; fi
  props=$(python3 - "$f" "$own" <<'PY'
import sys,re
f,own=sys.argv[1],sys.argv[2]
m=[('pkg/packet/receiver.go','C20 C03 C16 C12'),('pkg/packet/sender.go','C07 C12 C15'),('pkg/packet/memory.go','C07 C05'),('pkg/packet/readwriter.go','C15'),
('pkg/scan/generator.go','C07 C05 C19'),('pkg/scan/request.go','C01 C13 C19 C02'),('pkg/scan/engine.go','C08 C07 C12 C13'),('pkg/scan/result.go','C14 C08 C16'),
('command/root.go','C16 C12 C03'),('command/config.go','C02 C17 C15'),('command/log/','C14 C03 C19'),('pkg/scan/arp/','C11 C06 C03'),('pkg/scan/tcp/','C05 C03 C06'),
('pkg/scan/icmp/','C05 C03 C06'),('pkg/scan/udp/','C05 C03'),('pkg/scan/socks5/','C09 C08'),('pkg/scan/docker/','C10 C08 C12'),('pkg/scan/elastic/','C10 C08 C12'),('pkg/ip/','C17 C02'),
('command/tcp','C05 C01'),('command/udp','C05 C01'),('command/icmp','C05 C01'),('command/arp','C11 C19 C05'),('command/socks','C08'),('command/docker','C08'),('command/elastic','C08')]
files=re.findall(r'^diff --git a/(\S+)',open(f).read(),re.M)
props=[own]
for fl in files:
    for k,v in m:
        if fl.startswith(k):
            for p in v.split():
                if p not in props: props.append(p)
print(','.join(props[:5]))
PY
)
  PROPS=$props /verif/bin/benigntable.sh quick $n
done
