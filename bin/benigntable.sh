#!/bin/bash
# Runs the registered quick checks against every property-preserving change under /verif/benign
# (patched scratch copy, never /repo). Any VIOLATION here is a false alarm of the machinery.
# usage: benigntable.sh [tier] [names...]
TIER=${1:-quick}; shift
NAMES=${@:-$(ls /verif/benign | sed 's/\.diff$//')}
PROPS=${PROPS:-C01,C02,C03,C05,C06,C07,C08,C09,C10,C11,C12,C13,C14,C15,C16,C17,C19,C20}
for n in $NAMES; do
  T=$(mktemp /tmp/benign-XXXXXX)
  VERIF_MAX_GROUPS=1 VERIF_MIN_BUDGET=8 MUTANT_LINES=8 /verif/bin/mutant.sh /verif/benign/$n.diff "$PROPS" "$TIER" > "$T" 2>&1; rc=$?
  echo "### $n exit=$rc alarms: $(grep -E '^== C[0-9]+ exit=[12]' "$T" | cut -d' ' -f2 | tr '\n' ' ')"
  grep -A3 -E '^VIOLATION|exit=2' "$T" | cut -c1-500
  rm -f "$T"
done
