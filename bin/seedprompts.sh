#!/bin/bash
# Prepares a wave of seeded-change sub-agents: one scratch worktree of /repo and one prompt file per
# claimed property under $1 (e.g. /tmp/wt4), letters $2 $3 (e.g. g h). The prompt holds only the
# property text, the worktree path and one-line summaries of the changes already taken.
WT=$1; A=$2; B=$3
mkdir -p $WT
for id in C01 C02 C03 C05 C06 C07 C08 C09 C10 C11 C12 C13 C14 C15 C16 C17 C19 C20; do
  [ -d $WT/$id ] || git -C /repo worktree add -q --detach $WT/$id HEAD
done
python3 - "$WT" "$A" "$B" <<'EOF'
import json,re,sys,glob,os
WT,A,B=sys.argv[1:4]
tmpl=open('/verif/seeded/tools/PROMPT.tmpl').read().replace('@WT@',WT)
extra='''
ALREADY TAKEN - do NOT produce these or close variants of them (they were written by others for the same property); pick different code sites and different kinds of mistake:
@TAKEN@
At least ONE of your two changes must need a goroutine interleaving or a fault / error / cancel / timeout / slow peer arriving at a particular point to manifest (not merely an unusual input); the other may be a multi-step history, a boundary size, or two cooperating code sites that each look fine alone. Look beyond the files listed as relevant if that helps (command/*.go wiring, pkg/packet, pkg/scan, command/log) - what matters is that the PROPERTY breaks. Name your two changes "%s" and "%s" (directories %s/ and %s/, demo files zz_demo_@ID@%s_test.go / zz_demo_@ID@%s_test.go). In meta.json write demo_cmd as a plain shell command only (put any notes such as "needs root" into a separate "demo_note" field).
''' % (A,B,A,B,A,B)
for l in open('/verif/properties.jsonl'):
    p=json.loads(l); id=p['id']
    if not os.path.isdir('%s/%s'%(WT,id)): continue
    prop="Property %s: %s\n\nStatement: %s\n\nQuantified over: %s\n\nRelevant files: %s\n\nMechanisms: %s\n" % (p['id'],p['title'],p['statement'],p['quantifier']['text'],', '.join(p['anchors']['files']), '; '.join('%s (%s)'%(m['name'],m['where']) for m in p['anchors']['mechanism']))
    taken=[]
    for d in sorted(glob.glob('/verif/seeded/%s?'%id)):
        try:
            m=json.load(open(d+'/meta.json'))
            taken.append(' - '+re.sub(r'\s+',' ',m['summary'])[:300])
        except Exception: pass
    t=tmpl.replace('DELIVERABLES in', extra.replace('@TAKEN@','\n'.join(taken))+'\nDELIVERABLES in')
    t=t.replace('(for x in a, b)','(for x in %s, %s)'%(A,B)).replace('TWO different, realistic source changes ("a" and "b")','TWO different, realistic source changes ("%s" and "%s")'%(A,B)).replace('Make "a" and "b" different','Make "%s" and "%s" different'%(A,B)).replace('zz_demo_@ID@<a|b>_test.go','zz_demo_@ID@<%s|%s>_test.go'%(A,B))
    open('%s/%s.prompt.txt'%(WT,id),'w').write(t.replace('@ID@',id).replace('@PROPERTY@',prop))
print('prompts written to',WT)
EOF
