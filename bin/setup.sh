#!/bin/bash
# Offline setup: build simgen and warm the Go build cache with one instrumented build.
set -e
export GOFLAGS=-mod=mod GOPROXY=off GOSUMDB=off GOTOOLCHAIN=local PATH=/opt/veriftools/go1.26.8/bin:$PATH CGO_ENABLED=1
cd /verif/simgen && go build -o /verif/bin/simgen .
S=$(mktemp -d /tmp/simsetup-XXXXXX)
trap 'rm -rf "$S"' EXIT
/verif/bin/simbuild "$S" /repo
"$S/sim.test" -test.run '^TestWorker$' -list >/dev/null
echo "setup ok"
