#!/bin/bash
# usage: seedprocess.sh <ID> <a|b> [props-to-check (default: the ID)] [tier]
# verifies the sub-agent's deliverable, stores it under /verif/seeded/<ID><x>/ and runs the checks against it
set -u
ID=$1; X=$2; PROPS=${3:-$ID}; TIER=${4:-quick}
SRC=${WT:-/tmp/wt}/$ID.out/$X; DST=/verif/seeded/$ID$X
[ -d "$SRC" ] || { echo "no $SRC"; exit 3; }
V=$(/verif/bin/seedverify.sh "$SRC" 2>&1); rv=$?
echo "$V" | tail -4
if [ $rv -ne 0 ]; then echo "== $ID$X: not confirmed, not kept"; exit 1; fi
mkdir -p "$DST"; cp "$SRC"/* "$DST"/
TF=$(mktemp /tmp/seedproc-XXXXXX)
VERIF_MAX_GROUPS=1 VERIF_MIN_BUDGET=8 MUTANT_LINES=8 /verif/bin/mutant.sh "$DST/patch.diff" "$PROPS" "$TIER" > "$TF" 2>&1; rm=$?
cat "$TF"
python3 - "$DST" "$rm" "$PROPS" "$TIER" "$TF" <<'PY'
import json,sys,re
dst,rm,props,tier=sys.argv[1],int(sys.argv[2]),sys.argv[3],sys.argv[4]
m=json.load(open(dst+'/meta.json'))
out=open(sys.argv[5],errors='replace').read()
caught=[]
for blk in re.findall(r'== (C\d+) exit=(\d+): (\d+) violation groups', out):
    if blk[1]=='1': caught.append(blk[0])
oracles=sorted(set(re.findall(r'oracle=(\S+) sig=(\S+)', out)))
m['verif']={'confirmed':'bin/seedverify.sh: patch applies to /repo HEAD, go build ok, unedited baseline suite passes with the change, demo passes on the original and fails with the change',
 'checks_run':'bin/mutant.sh patch.diff %s %s' % (props,tier), 'caught_by':caught, 'oracles':['%s [%s]'%o for o in oracles][:6], 'exit':rm}
json.dump(m,open(dst+'/meta.json','w'),indent=1)
print("== %s: caught_by=%s" % (dst, caught))
PY
rm -f "$TF"
