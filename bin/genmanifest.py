#!/usr/bin/env python3
"""Writes /verif/MANIFEST.json from bin/simprops.py (single source of truth for claimed checks)."""
import json, os, sys
sys.path.insert(0, os.path.dirname(os.path.abspath(__file__)))
from simprops import PROPS, NOT_APPLICABLE, MANIFEST_TEXT

checks = []
for pid in sorted(PROPS):
    p = PROPS[pid]
    t = MANIFEST_TEXT[pid]
    checks.append({
        "property_id": pid,
        "quick_cmd": "bin/simcheck run --prop %s --tier quick" % pid,
        "thorough_cmd": "bin/simcheck run --prop %s --tier thorough" % pid,
        "evidence_file": "/verif/evidence/%s.json" % pid,
        "replay_cmd_template": "bin/simcheck replay {path}",
        "engine": "simcheck",
        "level_claimed": {"category": p["level"], "text": t["text"], "design_ref": t.get("design_ref", "DESIGN.md section 4 (%s)" % pid)},
        "level_note": t["note"],
        "technique": t.get("technique", "deterministic simulation with fault injection: seeded scheduler over simgen-instrumented sx in a synctest bubble"),
    })
m = {
    "version": 1,
    "setup_cmd": "bin/setup.sh",
    "hooks": {
        "guard": "verif",
        "enable": "no hook is committed to /repo: bin/simgen instruments a scratch copy of the working tree at check time and the harness is built with `go test -c -overlay` (go1.26.8); the build tag is unused",
        "baseline_off_cmd": "cd /repo && go test -vet=off -count=1 -timeout 25m ./...",
        "source_commits": [],
        "add_only": True,
    },
    "engines": [{"name": "simcheck", "path": "/verif/bin/simcheck", "serves_properties": sorted(PROPS),
                 "kind_free_text": "deterministic simulation: simgen (typed AST instrumentation via overlay) + simrt (seeded single-runner scheduler in a testing/synctest bubble) + simulated wire/host/io/tcp world + per-property reference models; seeded search, delta-debugging minimiser, exact replay"}],
    "checks": checks,
    "not_applicable": NOT_APPLICABLE,
    "notes": "Exit 0 = held on everything explored; 1 = VIOLATION (replay verified in fresh processes); 2 = infrastructure trouble. Known findings: /verif/known_findings.json.",
}
json.dump(m, open(os.path.join(os.path.dirname(os.path.dirname(os.path.abspath(__file__))), "MANIFEST.json"), "w"), indent=1)
print("MANIFEST.json: %d checks, %d not applicable" % (len(checks), len(NOT_APPLICABLE)))
