#!/bin/bash
# usage: mutant.sh <patch.diff> <prop>[,<prop>...] [tier]
# Applies a patch to a scratch copy of /repo (outside /repo and /verif), runs the checks of the given
# properties against it (VERIF_REPO), prints their verdict lines, removes the copy. Evidence and
# replays of these runs go to a scratch directory, never to /verif/evidence.
set -u
PATCH=$(readlink -f "$1"); PROPS=$2; TIER=${3:-quick}
S=$(mktemp -d /tmp/mutant-XXXXXX)
trap 'rm -rf "$S"' EXIT
rsync -a --exclude .git /repo/ "$S/repo/"
if ! (cd "$S/repo" && patch -p1 --no-backup-if-mismatch -s < "$PATCH"); then echo "MUTANT: patch does not apply"; exit 3; fi
rc=0
for P in ${PROPS//,/ }; do
  VERIF_REPO="$S/repo" VERIF_EVIDENCE_DIR="$S/ev" VERIF_REPLAY_DIR="$S/replays" VERIF_MAX_GROUPS=${VERIF_MAX_GROUPS:-2} VERIF_MIN_BUDGET=${VERIF_MIN_BUDGET:-0} /verif/bin/simcheck run --prop "$P" --tier "$TIER" > "$S/out.$P" 2>&1
  r=$?
  echo "== $P exit=$r: $(grep -c '^VIOLATION' "$S/out.$P") violation groups"
  grep -A3 '^VIOLATION' "$S/out.$P" | cut -c1-600 | head -${MUTANT_LINES:-12}
  [ $r -eq 2 ] && tail -5 "$S/out.$P"
  [ $r -ne 0 ] && rc=$r
done
exit $rc
