#!/bin/bash
# usage: seedverify.sh <dir with patch.diff, meta.json, demo file(s)>
# Confirms a seeded change in a scratch worktree of /repo: patch applies, project builds, the unedited
# baseline suite passes with the change, the demonstration fails with the change and passes without it.
set -u
export GOFLAGS=-mod=mod GOPROXY=off GOSUMDB=off GOTOOLCHAIN=local
D=$(readlink -f "$1")
W=$(mktemp -d /tmp/seedwt-XXXXXX); rmdir "$W"
git -C /repo worktree add -q --detach "$W" HEAD || exit 3
trap '[ -n "${KEEP:-}" ] || { git -C /repo worktree remove --force "$W" >/dev/null 2>&1; rm -rf "$W"; }' EXIT
DEMO_PATH=$(python3 -c "import json,sys; print(json.load(open('$D/meta.json'))['demo_path'])")
DEMO_CMD=$(python3 -c "import json,sys; print(json.load(open('$D/meta.json'))['demo_cmd'])")
DEMO_FILE=$(basename "$DEMO_PATH")
[ -f "$D/$DEMO_FILE" ] || { echo "SEED: demo file $DEMO_FILE missing in $D"; ls "$D"; exit 3; }
DEMO_CMD=$(echo "$DEMO_CMD" | sed -E "s#/tmp/wt[0-9]*/C[0-9]+#$W#g; s#<worktree>#$W#g; s#<repo>#$W#g")
cd "$W"
git apply --check "$D/patch.diff" || { echo "SEED: patch does not apply to current /repo HEAD"; exit 4; }
mkdir -p "$(dirname "$DEMO_PATH")"; cp "$D/$DEMO_FILE" "$DEMO_PATH"
echo "--- demo on the original tree (must pass)"
( eval "cd $W && $DEMO_CMD" ) > "$W/.demo0.log" 2>&1; r0=$?
tail -3 "$W/.demo0.log"
git apply "$D/patch.diff"
echo "--- build + baseline suite with the change"
rm -f "$DEMO_PATH"
go build ./... > "$W/.build.log" 2>&1; rb=$?
go test -vet=off -count=1 ./... > "$W/.base.log" 2>&1; rt=$?
grep -v "^ok\|no test files" "$W/.base.log" | head -5
cp "$D/$DEMO_FILE" "$DEMO_PATH"
echo "--- demo with the change (must fail)"
( eval "cd $W && $DEMO_CMD" ) > "$W/.demo1.log" 2>&1; r1=$?
grep -m3 -E "^\s+--- FAIL|^--- FAIL|FAIL|panic" "$W/.demo1.log" | head -3
echo "SEED-VERIFY demo_orig=$r0 build=$rb baseline=$rt demo_changed=$r1"
if [ $r0 -eq 0 ] && [ $rb -eq 0 ] && [ $rt -eq 0 ] && [ $r1 -ne 0 ]; then echo "SEED-VERIFY: CONFIRMED"; exit 0; fi
echo "SEED-VERIFY: NOT CONFIRMED"; exit 1
