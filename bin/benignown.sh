#!/bin/bash
run() { PROPS=$2 /verif/bin/benigntable.sh quick $1; }
run B02-small-buffers C01,C03,C05,C07,C08,C12,C13,C14,C15,C16,C19
run B03-big-buffers C01,C03,C07,C08,C12,C13,C14,C16,C19
run B04-flush-100ms C14,C16,C03,C08
run B05-chunk-64 C01,C03,C05,C12,C15,C16
run B06-error-wording C13,C01,C02,C11
run B07-rate-noslack C15,C08
run B08-no-pool C05,C07,C01
run B09-cache-mutex C11
run B10-relay-stage C07,C01,C12,C13,C16,C15
run B11-json-single-write C14,C03,C08,C16
run B12-socks-linger2 C09,C08
run B13-default-exitdelay-500ms C16,C03,C12
run B14-receiver-ctxerr C20,C12
run B15-exitdelay-timer C16,C12
run B01-backoff-20ms C20,C16,C03,C12
