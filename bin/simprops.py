"""Registry: property -> suites, budgets and evidence texts (read by simcheck)."""

COMPONENTS_LIB = {
    "real": ["sx package code under test (instrumented copy of the working tree)", "gopacket", "go.uber.org/ratelimit"],
    "stub": ["goroutine scheduling (simrt)", "clock (testing/synctest)", "the seams named in the rule"],
}
COMPONENTS_CMD = {
    "real": ["command/**, command/log, pkg/scan/**, pkg/packet/**, pkg/ip (instrumented copy of the working tree)",
             "cobra flag parsing", "libpcap filter compiler (cgo)", "gopacket layers", "cidranger", "easyjson", "go.uber.org/ratelimit", "zap encoder"],
    "stub": ["goroutine scheduling (simrt)", "clock (testing/synctest)", "AF_PACKET socket and kernel BPF interpreter (simwire + x/net/bpf VM)",
             "interfaces/routes (simhost)", "stdin/stdout/files (simio)", "zap production sampler and stderr sink", "Ctrl-C (simsignal)", "math/rand seed (simrand)"],
}

ASSUME_COMMON = [
    "samples schedules and faults; a clean batch is evidence, not proof",
    "Go 1.26.8 runtime + testing/synctest give a faithful virtual clock and quiescence detection",
    "simgen's rewrite of go/select/send/receive/close/cancel preserves Go semantics (DESIGN.md 2.1)",
]

PROPS = {
    "C20": {
        "level": "fault_enumeration",
        "rule": "cases = read-outcome sequences over {F frame, P frame+processor error, A EAGAIN, T timeout net.Error, R ECONNRESET, U unknown, W wrapped temporary, X EOF/EBADF/closed-file}; "
                "run indexes [0,N) enumerate every sequence of length <= 4 (quick) / <= 5 (thorough), [N,2N) the same with a cancel at a drawn read call, the rest are random sequences up to 400 long "
                "with cancel at a read call or scheduling step and a slow consumer; distinct = distinct (sequence, cancel point, consumer, schedule-trace hash); non-trivial = >= 2 outcomes incl. a frame or reportable error",
        "suites": [{"name": "C20-receiver", "quick": 12000, "thorough": 160000,
                    "enum": {"what": "all outcome sequences up to length L over the 8-letter alphabet, without and with one cancel", "quick": 9360, "thorough": 74896}}],
        "expect_probes": ["errc-over-100"],
        "components": {"real": ["pkg/packet/receiver.go (instrumented)"], "stub": ["packet.Reader (scripted)", "packet.Processor (recording)", "scheduler, clock"]},
        "assumptions": ASSUME_COMMON + ["the reader is called by one goroutine; outcomes are those the AF_PACKET socket can produce"],
    },
}

NOT_APPLICABLE = [
    {"property_id": "C04", "reason": "pure function of (n, two random draws) over a static table; no schedule, clock, I/O, fault or history in its statement - number theory / exhaustive walk, not simulation (DESIGN.md section 5)"},
    {"property_id": "C18", "reason": "seven string->value parsers quantified over all strings; no interleaving, timer or fault to simulate (DESIGN.md section 5); canonical renderings are exercised indirectly by C01/C05/C15 scenarios"},
]

PENDING = ["C01", "C02", "C03", "C05", "C06", "C07", "C08", "C09", "C10", "C11", "C12", "C13", "C14", "C15", "C16", "C17", "C19"]
for _p in PENDING:
    if _p not in PROPS:
        NOT_APPLICABLE.append({"property_id": _p, "reason": "check under construction in this session - not claimed yet (planned in DESIGN.md section 4)"})

MANIFEST_TEXT = {
    "C20": {"text": "The real packet.Receiver runs under the seeded scheduler against a scripted reader. Every outcome sequence up to length 4 (quick) / 5 (thorough) over the 8-letter outcome alphabet is enumerated, each also with a cancel at a drawn read call, then random sequences up to 400 outcomes with cancel at a read call or scheduling step and a slow error consumer. A fold over the outcome sequence is the reference model for processed frames, reported errors, termination, read calls after fatal/cancel and the 5 ms back-off on the virtual clock.",
            "note": "Trusts Go 1.26.8 synctest, simgen's rewrite and the outcome alphabet (errors an AF_PACKET socket produces; wrapped EBADF and fmt-wrapped timeouts are outside it). Enumeration is complete only up to the stated length; schedules are sampled."},
}
