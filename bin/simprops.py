"""Registry: property -> suites, budgets and evidence texts (read by simcheck)."""

COMPONENTS_LIB = {
    "real": ["sx package code under test (instrumented copy of the working tree)", "gopacket", "go.uber.org/ratelimit"],
    "stub": ["goroutine scheduling (simrt)", "clock (testing/synctest)", "the seams named in the rule"],
}
COMPONENTS_CMD = {
    "real": ["command/**, command/log, pkg/scan/**, pkg/packet/**, pkg/ip (instrumented copy of the working tree)",
             "cobra flag parsing", "libpcap filter compiler (cgo)", "gopacket layers", "cidranger", "easyjson", "go.uber.org/ratelimit", "zap encoder"],
    "stub": ["goroutine scheduling (simrt)", "clock (testing/synctest)", "AF_PACKET socket and kernel BPF interpreter (simwire + x/net/bpf VM)",
             "interfaces/routes (simhost)", "stdin/stdout/files (simio)", "zap production sampler and stderr sink", "Ctrl-C (simsignal)", "math/rand seed (simrand)"],
}

ASSUME_COMMON = [
    "samples schedules and faults; a clean batch is evidence, not proof",
    "Go 1.26.8 runtime + testing/synctest give a faithful virtual clock and quiescence detection",
    "simgen's rewrite of go/select/send/receive/close/cancel preserves Go semantics (DESIGN.md 2.1)",
]

PROPS = {
    "C01": {
        "level": "exploration",
        "rule": "case = one full `sx <scan> ...` execution in the simulated world: command in {arp, icmp, udp, tcp, tcp syn/fin/null/xmas, tcp --flags, socks}, target mode in {subnet (aligned/unaligned/host spelling, /32../22), file of ip/port pairs, file of addresses x port ranges (also from stdin), file of addresses}, port lists (single, edge, adjacent/overlapping, --ports-file, >200 ranges = chunked), exclusion files, VPN (no MAC) or Ethernet framing, NumCPU 1..64 / workers 1..1000, rand seed, scheduling strategy; oracle = multiset of decoded probes on the wire (or dials) equals the reference enumeration; distinct = distinct (argv shape, schedule-trace hash); non-trivial = >= 2 expected probes",
        "suites": [{"name": "C01-coverage", "quick": 2400, "thorough": 60000, "budget_quick": 100, "budget_thorough": 1500}],
        "expect_probes": ["chunked-scan", "targets-from-stdin", "pool-reuse"],
        "components": COMPONENTS_CMD,
        "assumptions": ASSUME_COMMON + ["range sizes above ~40k probes per run are not reached (cost); the permutation arithmetic for huge ranges is C04 (n/a)",
                                        "docker/elastic probe counting is done at HTTP level in the C08/C10 suites, not here"],
    },
    "C02": {
        "level": "exploration",
        "rule": "case = one full command execution; variants: scans with generated exclusion files (hosts, CIDRs, unaligned, nested/overlapping, comments, blanks), target lists with IPv4-mapped 16-byte spellings, every entry of a catalogue of non-IPv4 target arguments (IPv6 hosts, small/large IPv6 CIDRs, IPv4-mapped CIDRs and hosts, garbage) on every scan command, exclusion files with an over-long line, exclusion file read faults (EIO at any offset, short reads); oracle = every probe destination inside the reference target set and outside every exclusion, nothing else removed, bad targets refused with nothing sent and no panic/hang; distinct = (variant, argv shape, trace hash)",
        "suites": [{"name": "C02-confinement", "quick": 2400, "thorough": 60000, "budget_quick": 100, "budget_thorough": 1500,
                    "enum": {"what": "catalogue of 27 non-IPv4 target spellings x 3 draws of the scan command", "quick": 81, "thorough": 81}}],
        "expect_probes": ["refused-on-exclusion-file-fault"],
        "components": COMPONENTS_CMD,
        "assumptions": ASSUME_COMMON + ["an IPv4-mapped IPv6 host (::ffff:a.b.c.d) may be refused or scanned as exactly a.b.c.d",
                                        "under exclusion-file read faults the accepted outcomes are: refusal with nothing sent, or a scan honouring the complete list"],
    },
    "C03": {
        "level": "exploration",
        "rule": "case = one packet scan (arp, icmp, udp, tcp syn/fin/null/xmas/--flags; subnet / file / file x ports / VPN / chunked) against simulated hosts (alive/open chosen by hash) whose replies arrive with latency below the exit delay, some late, some duplicated, with IP options / TCP options / payload, plus up to 40 unsolicited frames per run (in/out of subnet, in/out of port ranges, all 512 TCP flag sets enumerated over run indexes 0..1023, any ICMP type/code, ARP, UDP, IPv6, IP-in-IP, VLAN); path = real filter text -> real libpcap -> x/net/bpf VM -> real receiver/processor/result channel/logger; oracle = multiset of stdout records (JSON or plain) equals records computed by pktcodec from every frame offered to an open socket before the exit instant; distinct = (argv shape, #unsolicited, #replies, trace hash)",
        "suites": [{"name": "C03-detection", "quick": 2400, "thorough": 60000, "budget_quick": 100, "budget_thorough": 1500,
                    "enum": {"what": "each of the 512 TCP flag sets arrives unsolicited during a SYN scan (indexes 0..511) and a FIN scan (512..1023)", "quick": 1024, "thorough": 1024}}],
        "expect_probes": ["pool-reuse"],
        "components": COMPONENTS_CMD,
        "assumptions": ASSUME_COMMON + ["the kernel BPF interpreter is replaced by golang.org/x/net/bpf.VM running the libpcap-compiled program; the veth/real-kernel observation named in the property is not performed",
                                        "frames arriving exactly at the exit instant may or may not be reported; fragments and malformed frames are not generated here (C06)",
                                        "unsolicited TCP frames of scans with > 100 port ranges use source ports outside every range (chunk-window independence)"],
    },
    "C05": {
        "level": "exploration",
        "rule": "case = one packet scan with generated frame options: all 511 non-empty --flags subsets (permuted order, mixed case, repeated name) over run indexes 0..510, sub-commands syn/fin/null/xmas, --ttl 0..255, --ipflags subsets, --ipproto, --iplen, --type/--code 0..255, --payload of 1..1400 bytes incl. odd lengths, --srcip/--srcmac, ARP cache entries vs gateway MAC, VPN framing, pool reuse; every frame on the wire is decoded by pktcodec (strict lengths, IHL, data offset, option walk, IPv4/TCP/UDP/ICMP checksums, zero padding to 60 bytes) and compared field by field with the request; distinct = (argv, trace hash); non-trivial = at least one frame",
        "suites": [{"name": "C05-frames", "quick": 2400, "thorough": 40000, "budget_quick": 100, "budget_thorough": 1200,
                    "enum": {"what": "all 511 non-empty subsets of the 9 TCP flags as --flags lists", "quick": 511, "thorough": 511}}],
        "expect_probes": ["pool-reuse"],
        "components": COMPONENTS_CMD,
        "assumptions": ASSUME_COMMON + ["input-space exploration executed through the simulator (the property quantifies over inputs; the schedule-dependent part is buffer recycling)",
                                        "with --iplen only the verbatim field and the fields not derived from lengths are checked"],
    },
    "C07": {
        "level": "exploration",
        "rule": "library level: real NewPacketSource + NewPacketMultiGenerator(N in 1..64) + NewSender + NewReceiver + PacketEngine.Start (mergeErrChan) between a simulated request generator (0..400 requests, error requests at chosen positions incl. bursts > 100, unbuffered/buffered channel, failing start), an id-carrying test filler (build errors), a recording writer (stalls, failing k-th write, before/after snapshot) and a reader injecting unknown errors; pool reuse decided by the seed; command level: full packet scans with stalling/failing NIC; oracle = multiset of bytes handed to the writer equals the independently built frames, no frame altered in flight, error stream = failed requests + builds + writes + reads each once, completion observed only when no write is in flight; distinct = (sizes, error positions, trace hash)",
        "suites": [{"name": "C07-pipeline", "quick": 6000, "thorough": 150000, "budget_quick": 100, "budget_thorough": 1200},
                   {"name": "C07-cmd", "quick": 1200, "thorough": 20000, "budget_quick": 100, "budget_thorough": 900}],
        "expect_probes": ["pool-reuse", "errors-over-100", "requests-over-buffers", "select-2-ready"],
        "components": {"real": ["pkg/scan/generator.go, engine.go (packetSource, PacketEngine, mergeErrChan), pkg/packet/sender.go, receiver.go, memory.go (instrumented)", "gopacket SerializeBuffer"],
                       "stub": ["RequestGenerator, PacketFiller, packet.Writer, packet.Reader (library level)", "scheduler, clock, sync.Pool (simrt.Pool)"]},
        "assumptions": ASSUME_COMMON + ["data races are visible only through their consequences (altered / wrong frames)"],
    },
    "C08": {
        "level": "exploration",
        "rule": "library level: real GenericEngine + ResultChan (capacity 1/10/1000) + optional rate-limited scanner + real startScanEngine + real JSON logger, with a recording Scanner (latency, positive/negative/failing per request by hash) and a simulated generator (0..1500 requests, error requests, failing start), workers in {1,2,3,7,100,1000}, exit delay >= default, slow stdout; command level: `sx socks` against endpoint populations of 14 behaviours; oracle = every error-free request probed exactly once, records = positive probes each once, error records = failed probes + error requests each once, return >= last probe end + exit delay, no probe in flight at return; distinct = (sizes, mix, trace hash)",
        "suites": [{"name": "C08-engine", "quick": 1600, "thorough": 30000, "budget_quick": 100, "budget_thorough": 1200},
                   {"name": "C08-sockscmd", "quick": 1200, "thorough": 20000, "budget_quick": 100, "budget_thorough": 1200}],
        "expect_probes": ["results-over-1000", "errors-over-100", "100-probes-in-flight"],
        "components": {"real": ["pkg/scan/engine.go (GenericEngine, rateLimitScanner), result.go, command/root.go startScanEngine, command/log (instrumented)", "command level: the whole socks command, socks5 scanner"],
                       "stub": ["scan.Scanner + RequestGenerator (library level)", "TCP (simnet)", "scheduler, clock, stdout, zap sink"]},
        "assumptions": ASSUME_COMMON + ["docker/elastic commands are covered at probe level in C10"],
    },
    "C09": {
        "level": "fault_enumeration",
        "rule": "case = one real socks5.Scanner.Scan against one scripted endpoint on simulated TCP: run indexes enumerate every two-byte reply 0x0000..0xffff (thorough; a 2048-reply spread in quick) sent after reading the greeting; the rest draw connect outcome (accept / refuse / blackhole / connect time around the dial timeout), how much of the greeting the server reads (0..3 bytes), a fault (close, reset, stall, one byte then stall/close/reset, split reply with pause, extra bytes, flood, reply then close/reset), latencies inside or around the data timeout, timeouts in {50ms, 2s, 5s}, cancel at a virtual instant; oracle = reported iff connected and the first two bytes sent arrive within the per-read budget and are 05 00 (ambiguous cases: exact-deadline ties, cancel, reset after reply), record carries the probed address, server received a prefix of 05 01 00, duration <= dial + 3 x data timeout, return <= 1 ms after cancel, no goroutine of the call left",
        "suites": [{"name": "C09-socksprobe", "quick": 12000, "thorough": 200000, "budget_quick": 100, "budget_thorough": 1500,
                    "enum": {"what": "all 65536 two-byte replies (thorough) / 2048-reply spread (quick)", "quick": 2048, "thorough": 65536}}],
        "components": {"real": ["pkg/scan/socks5 (instrumented)"], "stub": ["TCP connection and server (simnet)", "scheduler, clock"]},
        "assumptions": ASSUME_COMMON + ["simnet models TCP close/reset/buffering (first write after peer close succeeds; reset may discard queued bytes)"],
    },
    "C11": {
        "level": "exploration",
        "rule": "composition: one simulated `sx arp --json [--live]` execution against generated ARP speakers (alive by hash, replies with ordinary / broadcast / zero / multicast / vendor MACs, hosts answering twice with different MACs, unsolicited ARP requests and replies, ARP frames with hardware size 0..8 / protocol size 0..16 / other hardware types laid out to pass the capture filter), whose stdout is fed unchanged as stdin or --arp-cache of a second simulated execution (tcp / tcp syn / tcp fin / udp / icmp; subnet, pairs, addresses-x-ports, address list; targets mixing cached, uncached, remote and excluded addresses; gateway MAC from --gwmac, from the cache, or absent); also handmade cache files (16-byte spellings, upper-case / dashed MACs, extra and nested fields, reordered keys, duplicates); oracle = the loader accepts every printed line; every probe's Ethernet destination is the MAC of the last line for its own destination address, else the gateway MAC, else there is no probe but exactly one error naming that address; library: 2..8 clients x 4..40 Put/Get/Delete operations on <= 3 keys of one real arp.Cache (its RWMutex scheduled), history stamped with a global event counter and checked with porcupine against a map; distinct = (variant, gateway mode, command, mode, #lines, trace hashes)",
        "suites": [{"name": "C11-compose", "quick": 1600, "thorough": 40000, "budget_quick": 100, "budget_thorough": 1500},
                   {"name": "C11-cachelin", "quick": 4000, "thorough": 100000, "budget_quick": 60, "budget_thorough": 600}],
        "expect_probes": ["cache-entry-used", "no-mac-error", "overlapping-operations"],
        "components": COMPONENTS_CMD,
        "assumptions": ASSUME_COMMON + ["the property's cache line format is read as {ip: IPv4 address in any spelling, mac: 6-byte hardware address}",
                                        "data races on the cache map are not observable under a single-runner scheduler; the porcupine check decides the sequential semantics under interleaved critical sections only"],
    },
    "C12": {
        "level": "fault_enumeration",
        "rule": "case = one full command execution (packet scans incl. chunked/VPN/rate-limited, socks scans with 1..100 workers and stalled/flooding/black-holed endpoints) with NIC stalls, NIC error bursts (> 100 errors), slow stdout, duplicated/unsolicited traffic, and Ctrl-C delivered at scheduling step k or at a virtual instant; thorough: 24 base executions x every k in 1..1500 (blocks of run indexes share scenario and schedule), the rest k / t drawn; oracle = no panic, command returns, return within a sound bound after Ctrl-C (items taken after the cancel x (stall + limiter interval)), <= 64 probes after Ctrl-C, stdout = complete records; distinct = (command, cancel step/time, trace hash); non-trivial = Ctrl-C fired before normal completion",
        "suites": [{"name": "C12-cancel", "quick": 4000, "thorough": 90000, "budget_quick": 100, "budget_thorough": 1800,
                    "enum": {"what": "every scheduling step 1..1500 of 24 base executions as the Ctrl-C point", "quick": 0, "thorough": 36000}}],
        "expect_probes": ["cancel-before-first-probe", "cancel-sending", "cancel-exit-delay"],
        "components": COMPONENTS_CMD,
        "assumptions": ASSUME_COMMON + ["leaked helper goroutines after the command returned are not alarmed on (the process exits)",
                                        "the rate limiter is not context-aware: every limiter reservation taken before/after Ctrl-C adds one interval to the bound (observed, documented in DESIGN.md, not a violation of 'bounded')"],
    },
    "C13": {
        "level": "exploration",
        "rule": "case = one full command execution (tcp / tcp syn / tcp fin / udp / icmp / socks) over a generated target file of 1..15 lines in pairs, addresses-x-ports (1..3 ports, also from stdin) or address-list mode, with 1..3 bad lines drawn from a catalogue of 19 kinds (missing / empty / unparsable address, range as address, missing port, port 0 / 65536 / negative / huge, wrong JSON types, truncated JSON, garbage, blank line, array, empty object after a valid line, line > 64 KiB) at drawn positions, stacked stages: exclusion filter on/off x MAC stage in {VPN, --gwmac, gateway in cache, cache only (no gateway MAC: uncached destinations have no MAC)}; oracle = the observed (probe multiset, error-record classes) equals one of the reference model's outcomes {stop at the j-th bad line, continue to the end}: every bad line before the stop has exactly one error record stating its cause class (address / port / JSON / too long / no MAC for <that address>), valid lines are probed exactly once per pass, nothing else is probed; distinct = (command, mode, stages, line kinds, trace hash)",
        "suites": [{"name": "C13-badentries", "quick": 2400, "thorough": 60000, "budget_quick": 100, "budget_thorough": 1500}],
        "expect_probes": ["no-mac-entry", "stopped-at-bad-line", "continued-after-bad-line"],
        "components": COMPONENTS_CMD,
        "assumptions": ASSUME_COMMON + ["error records are observed at the zap core (the production sampler would drop repeated messages)",
                                        "the cause stated by an error record is classified by keywords of its text (json / port / too long / invalid ip|address / MAC + address)",
                                        "in addresses-x-ports mode the list is traversed once per port: one error per bad line per traversal, or one in total, are both accepted"],
    },
    "C15": {
        "level": "exploration",
        "rule": "case = one packet or socks scan with --rate N/W (N 1..5000; windows 250us..1m30s, with and without explicit count), workers 1..1000, up to 300 probes, NIC stalls / probe latencies in a share of runs; observed on the virtual clock: entry time of every frame write / dial; oracle = for every window of k consecutive departures span >= (k-1-10)*floor(W/N) - (k-1)ns, in stall-free packet runs also span <= (k-1)*floor(W/N)+k ns (charged once), probe count exact, every reply-shaped frame printed at its arrival instant (receive not slowed); distinct = (command, rate, #probes, trace hash)",
        "suites": [{"name": "C15-rate", "quick": 2400, "thorough": 40000, "budget_quick": 100, "budget_thorough": 1200}],
        "expect_probes": ["reply-while-throttled"],
        "components": COMPONENTS_CMD,
        "assumptions": ASSUME_COMMON + ["b = 10 is go.uber.org/ratelimit's documented default slack; per chunk (each chunk builds a fresh limiter)", "1 ns per interval tolerance: time.Duration granularity"],
    },
    "C16": {
        "level": "exploration",
        "rule": "case = one packet scan (all commands, chunked, VPN, NIC stalls) or socks scan with --exit-delay in {default, 1ms .. 30s}; simulated hosts reply with latency uniformly below the delay, some replies beyond it; oracle = each socket (chunk) closes exactly exit-delay after its last frame left (virtual clock: not earlier, not later), the command returns at that instant, every reply-shaped frame delivered before it is printed as a complete record; socks: return >= last connection end + delay, positives printed; distinct = (command, mode, delay, #frames, trace hash)",
        "suites": [{"name": "C16-exitdelay", "quick": 2400, "thorough": 40000, "budget_quick": 100, "budget_thorough": 1200}],
        "expect_probes": ["chunked-scan"],
        "components": COMPONENTS_CMD,
        "assumptions": ASSUME_COMMON + ["computation costs zero virtual time, so 'bounded time after the delay' is checked as equality on the virtual clock"],
    },
    "C19": {
        "level": "exploration",
        "rule": "library level: the real NewLiveRequestGenerator (interval 1ms..1m) over a simulated delegate whose every pass is a fresh seeded permutation of 0..120 targets sent through an unbuffered/buffered channel with optional latency, some passes (also the first) failing to start, a consumer that pauses, and a cancel at a drawn virtual instant (also inside a pass / before the first interval); command level: `sx arp --live d` (subnets up to /26, exclusions, NIC stalls, ARP responders, unsolicited frames) with Ctrl-C at a virtual instant; oracle over the recorded history: the stream splits into consecutive passes each equal to the delegate's pass (every target once, in order), pass i+1 is requested in [end_i + d, max(end_i, last consumption_i) + d], after a pass that failed to start a new attempt follows within 2d, passes keep coming until the cancel (bounded liveness on the virtual clock), the stream / command ends at the cancel instant, no panic, no busy loop (<= 60000 steps without time advancing); command level additionally: frames on the wire split into complete passes, hosts are printed once; distinct = (sizes, interval, failing passes, cancel instant, trace hash)",
        "suites": [{"name": "C19-live", "quick": 6000, "thorough": 150000, "budget_quick": 100, "budget_thorough": 1200},
                   {"name": "C19-livecmd", "quick": 1500, "thorough": 30000, "budget_quick": 100, "budget_thorough": 1200}],
        "expect_probes": ["three-passes", "cancel-inside-pass"],
        "components": {"real": ["pkg/scan/request.go liveRequestGenerator (instrumented)", "command level: the whole `sx arp --live` command incl. unique logger"],
                       "stub": ["delegate RequestGenerator and consumer (library level)", "scheduler, clock, wire, Ctrl-C"]},
        "assumptions": ASSUME_COMMON + ["computation costs zero virtual time, so interval bounds are exact on the virtual clock",
                                        "at command level the spacing bounds are checked in stall-free runs only (with a stalling NIC the last frame of a pass leaves later than the pass ended for the generator)"],
    },
    "C20": {
        "level": "fault_enumeration",
        "rule": "cases = read-outcome sequences over {F frame, P frame+processor error, A EAGAIN, T timeout net.Error, R ECONNRESET, U unknown, W wrapped temporary, X EOF/EBADF/closed-file}; "
                "run indexes [0,N) enumerate every sequence of length <= 4 (quick) / <= 5 (thorough), [N,2N) the same with a cancel at a drawn read call, the rest are random sequences up to 400 long "
                "with cancel at a read call or scheduling step and a slow consumer; distinct = distinct (sequence, cancel point, consumer, schedule-trace hash); non-trivial = >= 2 outcomes incl. a frame or reportable error",
        "suites": [{"name": "C20-receiver", "quick": 12000, "thorough": 160000,
                    "enum": {"what": "all outcome sequences up to length L over the 8-letter alphabet, without and with one cancel", "quick": 9360, "thorough": 74896}}],
        "expect_probes": ["errc-over-100"],
        "components": {"real": ["pkg/packet/receiver.go (instrumented)"], "stub": ["packet.Reader (scripted)", "packet.Processor (recording)", "scheduler, clock"]},
        "assumptions": ASSUME_COMMON + ["the reader is called by one goroutine; outcomes are those the AF_PACKET socket can produce"],
    },
}

NOT_APPLICABLE = [
    {"property_id": "C04", "reason": "pure function of (n, two random draws) over a static table; no schedule, clock, I/O, fault or history in its statement - number theory / exhaustive walk, not simulation (DESIGN.md section 5)"},
    {"property_id": "C18", "reason": "seven string->value parsers quantified over all strings; no interleaving, timer or fault to simulate (DESIGN.md section 5); canonical renderings are exercised indirectly by C01/C05/C15 scenarios"},
]

PENDING = ["C01", "C02", "C03", "C05", "C06", "C07", "C08", "C09", "C10", "C11", "C12", "C13", "C14", "C15", "C16", "C17", "C19"]
for _p in PENDING:
    if _p not in PROPS:
        NOT_APPLICABLE.append({"property_id": _p, "reason": "check under construction in this session - not claimed yet (planned in DESIGN.md section 4)"})

MANIFEST_TEXT = {
    "C11": {"text": "Two full commands are composed in simulation: the stdout of `sx arp --json` (against ARP speakers with odd, changing and hostile frames) becomes the ARP cache of an IP-level scan whose every probe's Ethernet destination is compared with the cache derived from the printed lines (last line wins, else gateway MAC, else exactly one error). Handmade cache files cover spellings and extra fields. A porcupine check decides Put/Get/Delete histories of concurrent clients on the real cache.",
            "note": "Sampled; data races as such are outside a single-runner simulation."},
    "C19": {"text": "The real live request generator runs under the seeded scheduler between a simulated delegate (fresh permutation per pass, passes that fail to start) and a pausing consumer, with the cancel at a drawn instant; the recorded request history is checked for pass structure, spacing (exact on the virtual clock), bounded liveness and termination. `sx arp --live` is checked the same way on the simulated wire.",
            "note": "Sampled sizes, intervals, failure positions and cancel instants."},
    "C13": {"text": "Full commands read generated target files with bad lines at drawn positions under every stack of optional stages (exclusion filter, ARP-cache resolver with/without gateway MAC, VPN, application scan). The frames / dials and the error records (at the zap core) are compared with a line-by-line reference model that allows stopping at a bad line or continuing as if it were absent.",
            "note": "Sampled files (1..15 lines, 19 kinds of bad line); error causes classified by keywords."},
    "C07": {"text": "The real packet pipeline stages run under the seeded scheduler between simulated request generator, filler, writer and reader; frames carry ids so that the multiset on the wire is compared byte for byte with independently built frames, every injected failure must appear exactly once on the error stream, and completion may only be observed when no write is in flight. Buffer-pool reuse is a seeded decision, so premature recycling shows as an altered or wrong frame. The same oracles run on full commands with a stalling / failing NIC.",
            "note": "Schedules, sizes and fault positions are sampled. Races are detected by consequence only."},
    "C08": {"text": "The real generic engine, result channel, startScanEngine and logger run with a recording scanner whose latency and outcome per request are seeded; worker counts up to 1000 and streams beyond the 1000/100-slot buffers. Each request must be probed exactly once, each outcome reported exactly once, and the scan may only return after the last probe plus the exit delay. `sx socks` runs against populations of simulated endpoints.",
            "note": "Sampled; docker/elastic at command level are not part of this check."},
    "C09": {"text": "The real SOCKS5 probe runs against one scripted server on a simulated TCP connection with deadlines on the virtual clock. All 65536 two-byte replies are enumerated (thorough); server faults at every protocol step, timeout settings and cancel instants are drawn. The virtual clock makes the time bound exact.",
            "note": "TCP is modelled (simnet); exact-deadline ties and reset-after-reply are treated as ambiguous."},
    "C12": {"text": "Ctrl-C is injected into full command executions at a chosen scheduling step or virtual instant, while stalls, error bursts, rate limits and slow consumers keep buffers full or empty. The thorough tier enumerates every step 1..1500 of 24 base executions as the cancel point; otherwise cancel points are drawn. Oracles: no panic (send on closed channel, double close), the command returns, it returns within a sound bound, few probes after the cancel, stdout is a sequence of complete records.",
            "note": "Crash points are scheduler steps of the instrumented program (every channel op / select / go / close / cancel / lock / I/O seam). Leaks after return are not alarmed on."},
    "C15": {"text": "Departure times of every probe are read on the virtual clock, so the spacing bound with the limiter's documented slack is checked exactly over every window of consecutive probes, as is charge-once (upper bound in stall-free runs) and that replies are printed at their arrival instant while sending is throttled.",
            "note": "Real go.uber.org/ratelimit on the fake clock; sampled rates and probe counts."},
    "C16": {"text": "On the virtual clock the lifetime of every socket and of the command is compared with the departure of the last probe: equal to the exit delay, per chunk; replies arriving within the delay are printed. Delays 1 ms .. 30 s cost nothing to simulate.",
            "note": "Sampled scenarios; application scans covered for socks."},
    "C03": {"text": "Full packet-scan commands run against a simulated network that answers probes and injects unsolicited traffic; each frame passes through the real libpcap-compiled filter (executed by x/net/bpf), the real receiver, processor, result channel and logger. The records printed are compared as a multiset with the records an independent classifier derives from the bytes of every frame offered to the socket before the exit instant. All 512 TCP flag sets are enumerated as unsolicited frames for SYN and FIN scans.",
            "note": "Kernel BPF replaced by the x/net/bpf VM on the same program; sampled scenarios; no fragments/malformed frames (C06)."},
    "C05": {"text": "Every frame written in generated scans is decoded by an independent strict codec and compared with the requested fields (MACs, addresses, ports, flag set, TTL, IP flags, protocol/length overrides verbatim, ICMP type/code, payload, checksums, padding). All 511 non-empty --flags subsets are enumerated; other option values are sampled.",
            "note": "Exploration of the option space through the simulated wire; borderline for this technique (stated in DESIGN.md section 5)."},
    "C01": {"text": "The whole sx command (cobra parsing, generator selection, chunk loop, exclusion filter, ARP-cache resolver, packet builders, sender) runs under the seeded scheduler on a simulated AF_PACKET wire; every frame written is decoded by an independent codec and the multiset of (address, port) probes is compared with a reference enumeration of the specification. Exploration over generated specifications, rand seeds and schedules.",
            "note": "Sampled specifications up to ~40k probes; kernel/NIC replaced by simwire; socks via simulated TCP dials. Trusts pktcodec and the 40-line reference enumeration."},
    "C02": {"text": "Same full-command simulation as C01 with the confinement oracle (destination of every probe inside the target set and outside exclusions, nothing else removed) over generated exclusion files, a complete catalogue of non-IPv4 target spellings (must be refused, nothing sent, no panic/hang) and injected exclusion-file faults (over-long line, EIO at any offset, short reads).",
            "note": "The catalogue of bad targets is finite (27 spellings); exclusion files are generated, not enumerated. Fault runs accept refusal or a scan with the complete list."},
    "C20": {"text": "The real packet.Receiver runs under the seeded scheduler against a scripted reader. Every outcome sequence up to length 4 (quick) / 5 (thorough) over the 8-letter outcome alphabet is enumerated, each also with a cancel at a drawn read call, then random sequences up to 400 outcomes with cancel at a read call or scheduling step and a slow error consumer. A fold over the outcome sequence is the reference model for processed frames, reported errors, termination, read calls after fatal/cancel and the 5 ms back-off on the virtual clock.",
            "note": "Trusts Go 1.26.8 synctest, simgen's rewrite and the outcome alphabet (errors an AF_PACKET socket produces; wrapped EBADF and fmt-wrapped timeouts are outside it). Enumeration is complete only up to the stated length; schedules are sampled."},
}
