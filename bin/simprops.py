"""Registry: property -> suites, budgets and evidence texts (read by simcheck)."""

COMPONENTS_LIB = {
    "real": ["sx package code under test (instrumented copy of the working tree)", "gopacket", "go.uber.org/ratelimit"],
    "stub": ["goroutine scheduling (simrt)", "clock (testing/synctest)", "the seams named in the rule"],
}
COMPONENTS_CMD = {
    "real": ["command/**, command/log, pkg/scan/**, pkg/packet/**, pkg/ip (instrumented copy of the working tree)",
             "cobra flag parsing", "libpcap filter compiler (cgo)", "gopacket layers", "cidranger", "easyjson", "go.uber.org/ratelimit", "zap encoder"],
    "stub": ["goroutine scheduling (simrt)", "clock (testing/synctest)", "AF_PACKET socket and kernel BPF interpreter (simwire + x/net/bpf VM)",
             "interfaces/routes (simhost)", "stdin/stdout/files (simio)", "zap production sampler and stderr sink", "Ctrl-C (simsignal)", "math/rand seed (simrand)"],
}

ASSUME_COMMON = [
    "samples schedules and faults; a clean batch is evidence, not proof",
    "Go 1.26.8 runtime + testing/synctest give a faithful virtual clock and quiescence detection",
    "simgen's rewrite of go/select/send/receive/close/cancel preserves Go semantics (DESIGN.md 2.1)",
]

PROPS = {
    "C01": {
        "level": "exploration",
        "rule": "case = one full `sx <scan> ...` execution in the simulated world: command in {arp, icmp, udp, tcp, tcp syn/fin/null/xmas, tcp --flags, socks}, target mode in {subnet (aligned/unaligned/host spelling, /32../22), file of ip/port pairs, file of addresses x port ranges (also from stdin), file of addresses}, port lists (single, edge, adjacent/overlapping, --ports-file, >200 ranges = chunked), exclusion files, VPN (no MAC) or Ethernet framing, NumCPU 1..64 / workers 1..1000, rand seed, scheduling strategy; oracle = multiset of decoded probes on the wire (or dials) equals the reference enumeration; distinct = distinct (argv shape, schedule-trace hash); non-trivial = >= 2 expected probes",
        "suites": [{"name": "C01-coverage", "quick": 2400, "thorough": 60000, "budget_quick": 100, "budget_thorough": 1500}],
        "expect_probes": ["chunked-scan", "targets-from-stdin", "pool-reuse"],
        "components": COMPONENTS_CMD,
        "assumptions": ASSUME_COMMON + ["range sizes above ~40k probes per run are not reached (cost); the permutation arithmetic for huge ranges is C04 (n/a)",
                                        "docker/elastic probe counting is done at HTTP level in the C08/C10 suites, not here"],
    },
    "C02": {
        "level": "exploration",
        "rule": "case = one full command execution; variants: scans with generated exclusion files (hosts, CIDRs, unaligned, nested/overlapping, comments, blanks), target lists with IPv4-mapped 16-byte spellings, every entry of a catalogue of non-IPv4 target arguments (IPv6 hosts, small/large IPv6 CIDRs, IPv4-mapped CIDRs and hosts, garbage) on every scan command, exclusion files with an over-long line, exclusion file read faults (EIO at any offset, short reads); oracle = every probe destination inside the reference target set and outside every exclusion, nothing else removed, bad targets refused with nothing sent and no panic/hang; distinct = (variant, argv shape, trace hash)",
        "suites": [{"name": "C02-confinement", "quick": 2400, "thorough": 60000, "budget_quick": 100, "budget_thorough": 1500,
                    "enum": {"what": "catalogue of 27 non-IPv4 target spellings x 3 draws of the scan command", "quick": 81, "thorough": 81}}],
        "expect_probes": ["refused-on-exclusion-file-fault"],
        "components": COMPONENTS_CMD,
        "assumptions": ASSUME_COMMON + ["an IPv4-mapped IPv6 host (::ffff:a.b.c.d) may be refused or scanned as exactly a.b.c.d",
                                        "under exclusion-file read faults the accepted outcomes are: refusal with nothing sent, or a scan honouring the complete list"],
    },
    "C20": {
        "level": "fault_enumeration",
        "rule": "cases = read-outcome sequences over {F frame, P frame+processor error, A EAGAIN, T timeout net.Error, R ECONNRESET, U unknown, W wrapped temporary, X EOF/EBADF/closed-file}; "
                "run indexes [0,N) enumerate every sequence of length <= 4 (quick) / <= 5 (thorough), [N,2N) the same with a cancel at a drawn read call, the rest are random sequences up to 400 long "
                "with cancel at a read call or scheduling step and a slow consumer; distinct = distinct (sequence, cancel point, consumer, schedule-trace hash); non-trivial = >= 2 outcomes incl. a frame or reportable error",
        "suites": [{"name": "C20-receiver", "quick": 12000, "thorough": 160000,
                    "enum": {"what": "all outcome sequences up to length L over the 8-letter alphabet, without and with one cancel", "quick": 9360, "thorough": 74896}}],
        "expect_probes": ["errc-over-100"],
        "components": {"real": ["pkg/packet/receiver.go (instrumented)"], "stub": ["packet.Reader (scripted)", "packet.Processor (recording)", "scheduler, clock"]},
        "assumptions": ASSUME_COMMON + ["the reader is called by one goroutine; outcomes are those the AF_PACKET socket can produce"],
    },
}

NOT_APPLICABLE = [
    {"property_id": "C04", "reason": "pure function of (n, two random draws) over a static table; no schedule, clock, I/O, fault or history in its statement - number theory / exhaustive walk, not simulation (DESIGN.md section 5)"},
    {"property_id": "C18", "reason": "seven string->value parsers quantified over all strings; no interleaving, timer or fault to simulate (DESIGN.md section 5); canonical renderings are exercised indirectly by C01/C05/C15 scenarios"},
]

PENDING = ["C01", "C02", "C03", "C05", "C06", "C07", "C08", "C09", "C10", "C11", "C12", "C13", "C14", "C15", "C16", "C17", "C19"]
for _p in PENDING:
    if _p not in PROPS:
        NOT_APPLICABLE.append({"property_id": _p, "reason": "check under construction in this session - not claimed yet (planned in DESIGN.md section 4)"})

MANIFEST_TEXT = {
    "C01": {"text": "The whole sx command (cobra parsing, generator selection, chunk loop, exclusion filter, ARP-cache resolver, packet builders, sender) runs under the seeded scheduler on a simulated AF_PACKET wire; every frame written is decoded by an independent codec and the multiset of (address, port) probes is compared with a reference enumeration of the specification. Exploration over generated specifications, rand seeds and schedules.",
            "note": "Sampled specifications up to ~40k probes; kernel/NIC replaced by simwire; socks via simulated TCP dials. Trusts pktcodec and the 40-line reference enumeration."},
    "C02": {"text": "Same full-command simulation as C01 with the confinement oracle (destination of every probe inside the target set and outside exclusions, nothing else removed) over generated exclusion files, a complete catalogue of non-IPv4 target spellings (must be refused, nothing sent, no panic/hang) and injected exclusion-file faults (over-long line, EIO at any offset, short reads).",
            "note": "The catalogue of bad targets is finite (27 spellings); exclusion files are generated, not enumerated. Fault runs accept refusal or a scan with the complete list."},
    "C20": {"text": "The real packet.Receiver runs under the seeded scheduler against a scripted reader. Every outcome sequence up to length 4 (quick) / 5 (thorough) over the 8-letter outcome alphabet is enumerated, each also with a cancel at a drawn read call, then random sequences up to 400 outcomes with cancel at a read call or scheduling step and a slow error consumer. A fold over the outcome sequence is the reference model for processed frames, reported errors, termination, read calls after fatal/cancel and the 5 ms back-off on the virtual clock.",
            "note": "Trusts Go 1.26.8 synctest, simgen's rewrite and the outcome alphabet (errors an AF_PACKET socket produces; wrapped EBADF and fmt-wrapped timeouts are outside it). Enumeration is complete only up to the stated length; schedules are sampled."},
}
