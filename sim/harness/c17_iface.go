package harness

import (
	"fmt"
	"net"
	"strings"
	"testing"
	"time"

	"verif/sim/pktcodec"
	"verif/sim/simrt"
)

// C17 — probes leave through the right interface with the right source (command level).
// The host's interfaces, addresses and routes are generated; a reference function written from
// the property text names the acceptable (interface, source address, source MAC, framing)
// outcomes or "error, nothing sent".

type c17Scenario struct {
	World   *WorldSpec `json:"world"`
	Target  string     `json:"target,omitempty"`
	Iface   string     `json:"iface_flag,omitempty"`
	SrcIP   string     `json:"srcip_flag,omitempty"`
	SrcMAC  string     `json:"srcmac_flag,omitempty"`
	Kind    string     `json:"kind"`
	Fault   string     `json:"fault,omitempty"`
	Accept  []string   `json:"acceptable_outcomes"`
}

type c17Outcome struct {
	iface string
	srcIP string // dotted IPv4
	mac   string // "" = raw IP framing
}

func (o c17Outcome) String() string {
	fr := "ethernet src " + o.mac
	if o.mac == "" {
		fr = "raw-IP framing"
	}
	return fmt.Sprintf("%s / %s / %s", o.iface, o.srcIP, fr)
}

func v4Of(cidrStr string) (ip net.IP, n *net.IPNet) {
	i, nn, err := net.ParseCIDR(cidrStr)
	if err != nil {
		return nil, nil
	}
	if i.To4() == nil {
		return nil, nn
	}
	return i.To4(), nn
}

// c17Reference: acceptable outcomes; empty result = the scan must fail with an error.
func c17Reference(ifs []IfSpec, routes []RouteSpec, target *cidr, ifaceFlag, srcipFlag, srcmacFlag string, arpScan bool) (outs []c17Outcome) {
	type cand struct {
		ifc IfSpec
		src []string // acceptable automatic source addresses
	}
	var cands []cand
	attachedAddr := func(ifc IfSpec) string {
		if target == nil {
			return ""
		}
		for _, a := range ifc.Addrs {
			ip, n := v4Of(a)
			if ip == nil {
				continue
			}
			if n.Contains(net.ParseIP(ipStr(target.Base))) {
				return ip.String()
			}
		}
		return ""
	}
	firstAddr := func(ifc IfSpec) []string {
		// "its first address"; if that is not an IPv4 address the scan may fail or use an IPv4
		// address of that interface - never anything else
		if len(ifc.Addrs) == 0 {
			return nil
		}
		var v4 []string
		for _, a := range ifc.Addrs {
			if ip, _ := v4Of(a); ip != nil {
				v4 = append(v4, ip.String())
			}
		}
		if ip, _ := v4Of(ifc.Addrs[0]); ip != nil {
			return []string{ip.String()}
		}
		return append([]string{"<error>"}, v4...)
	}
	byName := func(name string) *IfSpec {
		for i := range ifs {
			if ifs[i].Name == name {
				return &ifs[i]
			}
		}
		return nil
	}
	if srcmacFlag != "" {
		if _, err := net.ParseMAC(srcmacFlag); err != nil {
			return nil // an unusable override is an error, never "fall back to the automatic choice"
		}
	}
	if ifaceFlag != "" {
		ifc := byName(ifaceFlag)
		if ifc == nil {
			return nil
		}
		if a := attachedAddr(*ifc); a != "" {
			cands = append(cands, cand{*ifc, []string{a}})
		} else {
			cands = append(cands, cand{*ifc, firstAddr(*ifc)})
		}
	} else {
		for _, ifc := range ifs {
			if a := attachedAddr(ifc); a != "" {
				cands = append(cands, cand{ifc, []string{a}})
			}
		}
		if len(cands) == 0 {
			best := -1
			for i, r := range routes {
				if r.Dst == "" && (best < 0 || r.Metric < routes[best].Metric) {
					best = i
				}
			}
			if best >= 0 {
				for _, ifc := range ifs {
					if ifc.Index == routes[best].IfIndex {
						cands = append(cands, cand{ifc, firstAddr(ifc)})
					}
				}
			}
		}
	}
	for _, c := range cands {
		srcs := c.src
		if srcipFlag != "" {
			if ip := net.ParseIP(srcipFlag); ip != nil && ip.To4() != nil {
				srcs = []string{ip.To4().String()}
			} else {
				srcs = nil
			}
		}
		macs := []string{c.ifc.MAC}
		if srcmacFlag != "" {
			macs = []string{srcmacFlag}
			if c.ifc.MAC == "" && !arpScan {
				macs = append(macs, "") // override on an interface without hardware address: either framing
			}
		}
		for _, s := range srcs {
			for _, m := range macs {
				if arpScan && m == "" {
					outs = append(outs, c17Outcome{iface: "<error>"})
					continue
				}
				if s == "<error>" {
					outs = append(outs, c17Outcome{iface: "<error>"})
					continue
				}
				outs = append(outs, c17Outcome{iface: c.ifc.Name, srcIP: s, mac: m})
			}
		}
	}
	return
}

func runC17(t *testing.T, c simrt.Chooser, o Opts) *Out {
	p := picker{c}
	sc := &c17Scenario{}
	// ---- host ---------------------------------------------------------------------------------
	ifs := []IfSpec{{Name: "lo", Index: 1, Addrs: []string{"127.0.0.1/8"}, Loopback: true}}
	if p.pct("lo6", 30) {
		ifs[0].Addrs = []string{"::1/128", "127.0.0.1/8"}
	}
	nets := []string{"10.0.0.0/24", "10.0.0.0/16", "192.168.1.0/24", "192.168.1.128/25", "172.16.0.0/12", "10.0.1.0/24", "100.64.0.0/30"}
	nif := 1 + p.n("nif", 4)
	for i := 0; i < nif; i++ {
		ifc := IfSpec{Name: fmt.Sprintf("eth%d", i), Index: 2 + i}
		if p.pct("nomac", 25) {
			ifc.Name = fmt.Sprintf("tun%d", i)
		} else {
			ifc.MAC = fmt.Sprintf("02:00:00:00:%02x:%02x", i+1, p.n("macb", 256))
		}
		na := p.n("naddr", 4)
		for j := 0; j < na; j++ {
			if p.pct("v6", 25) {
				ifc.Addrs = append(ifc.Addrs, fmt.Sprintf("fe80::%x:%x/64", i+1, j+1))
				continue
			}
			nw := nets[p.n("net", len(nets))]
			_, n, _ := net.ParseCIDR(nw)
			ones, _ := n.Mask.Size()
			base := ipU32(n.IP.String())
			host := 1 + p.n("hostpart", min(200, (1<<(32-ones))-2))
			ifc.Addrs = append(ifc.Addrs, fmt.Sprintf("%s/%d", ipStr(base+uint32(host)), ones))
		}
		ifs = append(ifs, ifc)
	}
	var routes []RouteSpec
	for _, ifc := range ifs[1:] {
		for _, a := range ifc.Addrs {
			if ip, n := v4Of(a); ip != nil {
				routes = append(routes, RouteSpec{Dst: n.String(), IfIndex: ifc.Index, Metric: 100})
			}
		}
	}
	ndef := p.n("ndef", 4)
	metrics := []int{50, 100, 200, 600, 0, 1024}
	used := map[int]bool{}
	for i := 0; i < ndef; i++ {
		m := metrics[p.n("metric", len(metrics))]
		if used[m] {
			continue
		}
		used[m] = true
		ifc := ifs[1+p.n("defif", len(ifs)-1)]
		r := RouteSpec{IfIndex: ifc.Index, Metric: m, Gw: "10.255.255.1"}
		if p.pct("nogw", 30) {
			r.Gw = "" // `default dev tun0`: the usual form of a VPN / point-to-point default route
		}
		k := p.n("routepos", len(routes)+1)
		routes = append(routes[:k], append([]RouteSpec{r}, routes[k:]...)...)
	}
	// ---- target -------------------------------------------------------------------------------
	kinds := []string{"arp", "icmp", "tcp", "udp"}
	sc.Kind = kinds[p.n("kind", len(kinds))]
	var target *cidr
	fileMode := sc.Kind != "arp" && p.pct("filemode", 20)
	if !fileMode {
		var tc cidr
		if p.pct("onlink", 65) {
			// inside (or equal to) the network of one generated IPv4 address
			var pool []string
			for _, ifc := range ifs {
				for _, a := range ifc.Addrs {
					if ip, _ := v4Of(a); ip != nil {
						pool = append(pool, a)
					}
				}
			}
			a := pool[p.n("tpool", len(pool))]
			_, n := v4Of(a)
			ones, _ := n.Mask.Size()
			bits := ones + p.n("narrow", 33-ones)
			if bits < 27 {
				bits = 27 + p.n("bits27", 6)
			}
			base := ipU32(n.IP.String())
			span := uint32(1) << (32 - ones)
			tc = mkCIDR(base+uint32(p.n("toff", int(min(span, 1<<16)))), bits)
		} else {
			tc = mkCIDR(ipU32("203.0.113.0")+uint32(p.n("roff", 256)), 28+p.n("rbits", 5))
		}
		target = &tc
		sc.Target = tc.String()
	}
	if p.pct("ifaceflag", 35) {
		sc.Iface = ifs[p.n("ifpick", len(ifs))].Name
		if p.pct("badiface", 8) {
			sc.Iface = "nosuch0"
		}
	}
	if p.pct("srcip", 25) {
		sc.SrcIP = []string{"10.9.8.7", "192.0.2.33", "1.1.1.1"}[p.n("srcipv", 3)]
		if p.pct("srcip6", 10) {
			sc.SrcIP = "2001:db8::7"
		}
	}
	if p.pct("srcmac", 25) {
		sc.SrcMAC = fmt.Sprintf("06:aa:bb:cc:dd:%02x", p.n("srcmacb", 256))
		if p.pct("badsrcmac", 8) {
			sc.SrcMAC = []string{"06:aa:bb:cc:dd", "06-aa-bb-cc-dd-zz", "auto"}[p.n("badmacv", 3)]
		}
	}
	// ---- world / argv -------------------------------------------------------------------------
	w := &WorldSpec{Files: map[string]string{}, CloseWakes: true, Ifs: ifs, Routes: routes, NumCPU: p.pick("numcpu", 1, 4)}
	argv := []string{sc.Kind, "--json"}
	nprobe := 1
	if sc.Kind == "tcp" || sc.Kind == "udp" {
		if !fileMode {
			argv = append(argv, "-p", fmt.Sprint(1+p.n("port", 65535)))
		}
	}
	if sc.Kind != "arp" {
		argv = append(argv, "--gwmac", gwMAC, "-a", cacheFn)
		w.Files[cacheFn] = ""
	}
	if fileMode {
		e := fileEntry{IP: ipStr(ipU32("198.51.100.0") + uint32(p.n("fip", 256))), Port: 1 + p.n("fport", 65535)}
		w.Files[targetsFn] = entriesJSONL([]fileEntry{e}, sc.Kind != "icmp")
		argv = append(argv, "-f", targetsFn)
	}
	if sc.Iface != "" {
		argv = append(argv, "--iface", sc.Iface)
	}
	if sc.SrcIP != "" {
		argv = append(argv, "--srcip", sc.SrcIP)
	}
	if sc.SrcMAC != "" {
		argv = append(argv, "--srcmac", sc.SrcMAC)
	}
	// other options that are parsed after the overrides and must not disturb them
	if p.pct("excludeopt", 30) {
		w.Files[excludeFn] = "192.0.2.200\n# nothing of the target\n233.252.0.0/24\n"
		argv = append(argv, "--exclude", excludeFn)
	}
	if p.pct("rateopt", 15) {
		argv = append(argv, "--rate", "1000/s")
	}
	argv = append(argv, "--exit-delay", "5ms")
	if target != nil {
		argv = append(argv, target.String())
		nprobe = target.size()
	}
	w.Argv = argv
	// host configuration faults (reported separately: refusal or the correct outcome)
	switch p.n("fault", 12) {
	case 0:
		k := p.n("faultif", len(ifs))
		w.Ifs = append([]IfSpec{}, ifs...)
		w.Ifs[k].AddrsErr = true
		sc.Fault = "addrs-err:" + ifs[k].Name
	case 1:
		w.RoutesErr = true
		sc.Fault = "routes-err"
	case 2:
		w.SockOpenErr = "socket: operation not permitted"
		sc.Fault = "sock-open-fail"
	}
	if p.pct("slowhost", 15) {
		// slow enumeration of the host configuration: the scan starts later, on the same interface
		w.HostLatency = p.dur("hostlat", time.Millisecond, 400*time.Millisecond).String()
	}
	sc.World = w
	accept := c17Reference(ifs, routes, target, sc.Iface, sc.SrcIP, sc.SrcMAC, sc.Kind == "arp")
	mustFail := true
	mayFail := sc.Fault != ""
	for _, a := range accept {
		if a.iface == "<error>" {
			mayFail = true
		} else {
			mustFail = false
		}
		sc.Accept = append(sc.Accept, a.String())
	}
	if len(accept) == 0 {
		sc.Accept = []string{"error, nothing sent"}
	}
	if sc.Fault == "sock-open-fail" {
		mustFail = true
	}
	out := &Out{Scenario: sc, Stats: map[string]int{"kind:" + sc.Kind: 1}}
	cr := runCmd(t, c, w, o.Trace)
	out.Res = &cr.Res
	out.Nontrivial = true
	out.Key = fmt.Sprintf("%v/%v/%v/%s/%016x", argv, ifs, routes, sc.Fault, cr.Res.Hash)
	if crashOrHang(out, "C17", cr) {
		return out
	}
	sig := "auto"
	switch {
	case sc.Fault != "":
		sig = "fault:" + strings.SplitN(sc.Fault, ":", 2)[0]
	case sc.Iface != "":
		sig = "iface-flag"
	case target == nil:
		sig = "file-mode"
	}
	failed := cr.ExecErr != ""
	if failed {
		if len(cr.Wire) > 0 {
			out.violate("C17.error-after-send", sig, "argv %v: failed with %q after %d frames were sent", argv, cr.ExecErr, len(cr.Wire))
			return out
		}
		if !mayFail && !mustFail {
			out.violate("C17.refused", sig, "argv %v on %s: the scan failed (%s) although a usable interface and source exist: acceptable %v", argv, c17Host(ifs, routes), cr.ExecErr, sc.Accept)
		} else {
			simrtProbe(&cr.Res, "refused")
		}
		return out
	}
	if mustFail {
		first := ""
		if len(cr.Wire) > 0 {
			first = c17Describe(cr, 0)
		}
		out.violate("C17.not-refused", sig, "argv %v on %s: no usable interface / IPv4 source exists (or the socket cannot be opened) but the scan ran without an error; %d frames sent; first: %s; error records: %d", argv, c17Host(ifs, routes), len(cr.Wire), first, len(cr.Errs))
		return out
	}
	// frames: every one must match one and the same acceptable outcome
	if len(cr.Wire) != nprobe {
		cls := "/count"
		if len(cr.Wire) == 0 {
			cls = "/nothing-sent"
		}
		e := ""
		if len(cr.Errs) > 0 {
			e = cr.Errs[0].Err
		}
		out.violate("C17.probes", sig+cls, "argv %v on %s: %d frames sent for %d targets, no error returned; %d error records (first: %q); acceptable %v", argv, c17Host(ifs, routes), len(cr.Wire), nprobe, len(cr.Errs), e, sc.Accept)
		return out
	}
	if len(cr.Socks) == 0 {
		return out
	}
	opened := cr.Socks[0].Iface
	matched := -1
	for ai, a := range accept {
		if a.iface != opened {
			continue
		}
		ok := true
		for i := range cr.Wire {
			src, mac, err := c17FrameSource(cr.Wire[i].Data, a.mac == "")
			if err != nil || src != a.srcIP || mac != a.mac {
				ok = false
				break
			}
		}
		if ok {
			matched = ai
			break
		}
	}
	if matched < 0 {
		cls := "/source"
		okIf := false
		for _, a := range accept {
			if a.iface == opened {
				okIf = true
			}
		}
		if !okIf {
			cls = "/interface"
		}
		out.violate("C17.wrong-source", sig+cls, "argv %v on %s: opened interface %s, first frame %s; acceptable outcomes: %v", argv, c17Host(ifs, routes), opened, c17Describe(cr, 0), sc.Accept)
	}
	if len(accept) > 1 {
		simrtProbe(&cr.Res, "ambiguous-config")
	}
	return out
}

func c17FrameSource(data []byte, raw bool) (srcIP, srcMAC string, err error) {
	p, err := pktcodec.Decode(data, !raw)
	if err != nil {
		return "", "", err
	}
	if len(p.Problems) > 0 {
		return "", "", fmt.Errorf("%v", p.Problems)
	}
	if p.HasEth {
		srcMAC = pktcodec.MACString(p.EthSrc[:])
	}
	switch {
	case p.ARP != nil:
		if pktcodec.MACString(p.ARP.SHA) != srcMAC {
			return "", "", fmt.Errorf("ARP sender hardware address %s differs from the Ethernet source %s", pktcodec.MACString(p.ARP.SHA), srcMAC)
		}
		return net.IP(p.ARP.SPA).String(), srcMAC, nil
	case p.IP != nil:
		return pktcodec.IPString(p.IP.Src), srcMAC, nil
	}
	return "", "", fmt.Errorf("neither ARP nor IPv4")
}

func c17Describe(cr *CmdResult, i int) string {
	d := cr.Wire[i].Data
	if s, m, err := c17FrameSource(d, false); err == nil {
		return fmt.Sprintf("[ethernet src %s, source address %s]", m, s)
	}
	if s, _, err := c17FrameSource(d, true); err == nil {
		return fmt.Sprintf("[raw IP, source address %s]", s)
	}
	return fmt.Sprintf("[undecodable %x]", d[:min(len(d), 40)])
}

func c17Host(ifs []IfSpec, routes []RouteSpec) string {
	var sb strings.Builder
	for _, i := range ifs {
		m := i.MAC
		if m == "" {
			m = "no-mac"
		}
		fmt.Fprintf(&sb, "%s(%s %v) ", i.Name, m, i.Addrs)
	}
	sb.WriteString("default routes:")
	for _, r := range routes {
		if r.Dst == "" {
			fmt.Fprintf(&sb, " [if%d metric %d]", r.IfIndex, r.Metric)
		}
	}
	return sb.String()
}

func init() {
	register(&Suite{Name: "C17-iface", Prop: "C17", Doc: "generated interfaces / addresses / routes x override flags; opened interface, source MAC/IP and framing vs a reference function", Run: runC17})
}
