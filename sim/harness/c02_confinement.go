package harness

import (
	"bytes"
	"fmt"
	"strings"
	"testing"
	"time"

	"verif/sim/simnet"
	"verif/sim/simrt"
)

// C02 — confinement: nothing outside the target set or inside exclusions is probed; non-IPv4
// target arguments are refused before anything is sent.

type c02Scenario struct {
	Variant string     `json:"variant"`
	Spec    *scanSpec  `json:"spec"`
	World   *WorldSpec `json:"world"`
	Note    string     `json:"note,omitempty"`
}

// target arguments that are not an IPv4 address / IPv4 CIDR block
var c02BadTargets = []struct{ arg, class string }{
	{"::1", "ipv6-host"}, {"fe80::1", "ipv6-host"}, {"2001:db8::5", "ipv6-host"}, {"::", "ipv6-host"},
	{"2001:db8::/120", "ipv6-cidr-small"}, {"2001:db8::/126", "ipv6-cidr-small"}, {"fe80::/124", "ipv6-cidr-small"}, {"2001:db8::1/128", "ipv6-cidr-small"},
	{"2001:db8::/64", "ipv6-cidr-large"}, {"2001:db8::/32", "ipv6-cidr-large"}, {"::/0", "ipv6-cidr-large"}, {"fe80::/10", "ipv6-cidr-large"},
	{"::ffff:10.0.0.0/120", "ipv4-mapped-cidr"}, {"::ffff:10.0.0.64/124", "ipv4-mapped-cidr"}, {"::ffff:198.51.100.0/126", "ipv4-mapped-cidr"}, {"::ffff:a00:5/128", "ipv4-mapped-cidr"},
	{"::ffff:10.0.0.5", "ipv4-mapped-host"}, {"::ffff:198.51.100.7", "ipv4-mapped-host"}, {"::ffff:a00:7", "ipv4-mapped-host"},
	{"10.0.0", "garbage"}, {"10.0.0.1/33", "garbage"}, {"abc", "garbage"}, {"10.0.0.1-5", "garbage"}, {"10.0.0.256", "garbage"}, {"1.2.3.4.5", "garbage"}, {"10.0.0.0/", "garbage"}, {"/24", "garbage"},
}

func runC02(t *testing.T, c simrt.Chooser, o Opts) *Out {
	p := picker{c}
	variant := []string{"scan", "scan", "scan", "bad-target", "bad-target", "mapped-entries", "long-exclude-line", "exclude-read-fault", "huge-cancelled"}[p.n("variant", 9)]
	if o.Index < len(c02BadTargets)*3 {
		variant = "bad-target"
	}
	cmds := append(append([][]string{}, packetCmds...), appCmds...)
	knobs := genKnobs{maxProbes: 300, cmds: cmds, allowVPN: true, allowStdin: true, allowExcl: true, chunkedPct: 5, remotePct: 50}
	if o.Tier == "thorough" {
		knobs.maxProbes = 1500
	}
	s := genScan(p, knobs)
	sc := &c02Scenario{Variant: variant, Spec: s}
	out := &Out{Scenario: sc, Stats: map[string]int{"variant:" + variant: 1}}
	expectRefusal := false
	eitherRefusalOrScan := false
	badClass := ""
	switch variant {
	case "scan":
		if len(s.Exclude) == 0 {
			s.Exclude = genExclude(p, s)
		}
	case "bad-target":
		s.Mode, s.Entries, s.FromStdin = "subnet", nil, false
		if !s.portless() && len(s.Ports) == 0 {
			s.Ports = []portRange{{80, 81}}
		}
		bt := c02BadTargets[p.n("badtarget", len(c02BadTargets))]
		if o.Index < len(c02BadTargets)*3 {
			bt = c02BadTargets[o.Index%len(c02BadTargets)]
		}
		s.SubnetArg, badClass = bt.arg, bt.class
		s.Exclude = nil
		expectRefusal = true
		sc.Note = "target argument " + bt.arg + " (" + bt.class + ") must be refused before anything is sent"
	case "mapped-entries":
		// target list entries spelled as IPv4-mapped IPv6 (16-byte form of an IPv4 address)
		if s.Mode == "subnet" {
			if s.Kind == "arp" {
				s.Cmd, s.Kind = []string{"icmp"}, "icmp"
				s.CacheGw = true
			}
			if s.portless() {
				s.Mode = "ips"
				s.Entries = genEntries(p, 1+p.n("n", 12), false, 50)
			} else {
				s.Mode = "pairs"
				s.Ports = nil
				s.Entries = genEntries(p, 1+p.n("n", 12), true, 50)
			}
			s.Exclude = nil
		}
		if len(s.Exclude) == 0 {
			s.Exclude = genExclude(p, s)
		}
	case "long-exclude-line", "exclude-read-fault":
		if len(s.Exclude) == 0 {
			s.Exclude = genExclude(p, s)
		}
	case "huge-cancelled":
		// a range far too large to scan completely (/1 .. /14), interrupted by Ctrl-C after some
		// hundred probes: what was sent must lie inside the range, outside the exclusions, and no
		// (address, port) may have been probed twice - the iteration arithmetic for wide ranges is
		// exercised without paying for the whole range
		s.Mode, s.Entries, s.FromStdin = "subnet", nil, false
		if s.Kind == "arp" {
			s.Cmd, s.Kind = []string{"icmp"}, "icmp"
			s.Ports = nil
		}
		if !s.portless() {
			pt := 1 + p.n("hport", 65535)
			s.Ports = []portRange{{pt, pt + p.n("hportw", 2)}}
		}
		bits := 1 + p.n("hugebits", 14)
		if p.pct("slash0", 10) {
			bits = 0
		}
		base := uint32(p.n("hugebase", 1<<30)) << 2
		s.Subnet = mkCIDR(base, bits)
		s.SubnetArg = s.Subnet.String()
		s.VPN, s.GwMAC, s.CacheGw = false, gwMAC, false
		if s.app() {
			s.Workers = 7
		}
		s.Exclude = nil
		if p.bool("hugeexcl") {
			// exclusions that really bite: halves / quarters of the range
			s.Exclude = []string{mkCIDR(s.Subnet.Base, min(32, bits+1+p.n("hexb", 2))).String(), "# big holes", mkCIDR(s.Subnet.Base+uint32(1)<<(31-min(31, bits+2)), min(32, bits+3)).String()}
		}
	}
	w := s.world()
	if variant == "huge-cancelled" {
		w.SigintStep = 2000 + p.n("hugesig", 12000)
		w.maxSteps = 400_000
	}
	w.NumCPU = p.pick("numcpu", 1, 2, 4, 16)
	w.tcp = refuseAll
	if s.Kind == "docker" || s.Kind == "elastic" {
		// a third of the endpoints answer every request with a redirect to a host that is in no
		// target set: following it means probing an address the user never specified
		w.tcp = redirectSome
	}
	sc.World = w
	var want map[probeKey]int
	if !expectRefusal && variant != "huge-cancelled" {
		want = s.expected()
	}
	switch variant {
	case "mapped-entries":
		// respell entries in the file (the expectation stays the IPv4 address)
		fn := targetsFn
		data := w.Files[fn]
		if s.FromStdin {
			data = *w.Stdin
		}
		for _, e := range s.Entries {
			if p.pct("map", 60) {
				data = strings.Replace(data, fmt.Sprintf("%q", e.IP), fmt.Sprintf("%q", "::ffff:"+e.IP), 1)
			}
		}
		if s.FromStdin {
			w.Stdin = &data
		} else {
			w.Files[fn] = data
		}
	case "long-exclude-line":
		// an over-long comment line in the middle of the exclusion list: entries after it are
		// still exclusions (or the scan must refuse to start)
		lines := cleanExclude(s.Exclude)
		if len(lines) > 0 && p.pct("mappedexclude", 50) {
			// one exclusion entry is spelled in the IPv4-mapped IPv6 form: it is honoured as the
			// IPv4 entry it denotes, or the list is refused - it is never silently skipped
			all := append([]string{}, lines...)
			k := p.n("mpos", len(all))
			if i := strings.IndexByte(all[k], '/'); i >= 0 {
				var bits int
				fmt.Sscanf(all[k][i+1:], "%d", &bits)
				all[k] = fmt.Sprintf("::ffff:%s/%d", all[k][:i], 96+bits)
			} else {
				all[k] = "::ffff:" + all[k]
			}
			w.Files[excludeFn] = strings.Join(all, "\n") + "\n"
			eitherRefusalOrScan = true
			simrtFault(out, "exclude-mapped-spelling")
			break
		}
		k := p.n("pos", len(lines)+1)
		long := "# " + strings.Repeat("x", 70000)
		all := append(append(append([]string{}, lines[:k]...), long), lines[k:]...)
		w.Files[excludeFn] = strings.Join(all, "\n") + "\n"
		eitherRefusalOrScan = true
		simrtFault(out, "file-long-line")
	case "exclude-read-fault":
		data := w.Files[excludeFn]
		at := p.n("errat", len(data))
		ff := FileFault{ErrAt: at, ChunkSize: 0}
		if p.bool("short") {
			ff.ChunkSize = 1 + p.n("chunk", 7)
		}
		w.FileFault = map[string]FileFault{excludeFn: ff}
		eitherRefusalOrScan = true
	}
	cr := runCmd(t, c, w, o.Trace)
	out.Res = &cr.Res
	out.Nontrivial = true
	out.Key = fmt.Sprintf("%s/%v/%s/%s/%v/%016x", variant, s.Cmd, s.Mode, s.SubnetArg, s.Exclude, cr.Res.Hash)
	sigBase := fmt.Sprintf("%s/%s", variant, s.Kind)
	if badClass != "" {
		sigBase = fmt.Sprintf("%s/%s", variant, badClass)
	}
	if len(cr.Res.Panics) > 0 {
		pn := cr.Res.Panics[0]
		out.violate("C02.panic", sigBase, "argv %v: panic in goroutine %s: %s\n%s", w.Argv, pn.G, pn.Value, trimStack(pn.Stack))
		return out
	}
	if !cr.Returned {
		out.violate("C02.hang", sigBase, "argv %v: command did not return (%v); parked %v", w.Argv, cr.Res.End, firstN(cr.Res.Blocked, 10))
		return out
	}
	nsent := len(cr.Wire) + len(cr.Dials)
	if expectRefusal {
		refused := cr.ExecErr != "" || len(cr.Errs) > 0
		if badClass == "ipv4-mapped-host" && (nsent > 0 || !refused) {
			// the IPv4-mapped spelling of an IPv4 host denotes that IPv4 address: scanning exactly
			// that address is accepted as well as a refusal; anything else is a reinterpretation
			var a, b, cc, d int
			mapped := strings.TrimPrefix(s.SubnetArg, "::ffff:")
			if _, err := fmt.Sscanf(mapped, "%d.%d.%d.%d", &a, &b, &cc, &d); err != nil {
				var hi, lo uint32
				fmt.Sscanf(mapped, "%x:%x", &hi, &lo)
				a, b, cc, d = int(hi>>8), int(hi&0xff), int(lo>>8), int(lo&0xff)
			}
			addr := uint32(a)<<24 | uint32(b)<<16 | uint32(cc)<<8 | uint32(d)
			got, _ := gotProbes(s, cr)
			for k := range got {
				if k.IP != addr {
					out.violate("C02.not-refused", sigBase+"/reinterpreted", "argv %v: target %q probed as %s", w.Argv, s.SubnetArg, k)
					break
				}
			}
			return out
		}
		if nsent > 0 {
			dst := ""
			if len(cr.Wire) > 0 {
				if k, _, err := probeOf(s.Kind, cr.Wire[0].Data, false); err == nil {
					dst = k.String()
				}
			} else {
				dst = cr.Dials[0].Addr
			}
			out.violate("C02.not-refused", sigBase+"/probed", "argv %v: target %q is not an IPv4 address or CIDR block but %d probes were sent (first to %s); exec error %q", w.Argv, s.SubnetArg, nsent, dst, cr.ExecErr)
		} else if !refused {
			out.violate("C02.not-refused", sigBase+"/no-error", "argv %v: target %q was not refused with an error (nothing sent, exit status 0, no error record)", w.Argv, s.SubnetArg)
		}
		return out
	}
	if cr.ExecErr != "" {
		if eitherRefusalOrScan {
			if nsent > 0 {
				out.violate("C02.error-after-send", sigBase, "argv %v: error %q but %d probes had been sent", w.Argv, cr.ExecErr, nsent)
			}
			simrtProbe(&cr.Res, "refused-on-exclusion-file-fault")
			return out
		}
		out.violate("C02.exec-error", sigBase, "argv %v: valid specification refused: %s", w.Argv, cr.ExecErr)
		return out
	}
	got, bad := gotProbes(s, cr)
	if len(bad) > 0 {
		out.violate("C02.undecodable", sigBase, "%v", firstN(bad, 4))
	}
	if variant == "huge-cancelled" {
		exh := parseCIDRs(cleanExclude(s.Exclude))
		out.Stats["huge_probes"] += len(got)
		if len(got) >= 50 {
			simrtProbe(&cr.Res, "huge-range-sampled")
		}
		for _, k := range sortedProbeKeys(got) {
			n := got[k]
			switch {
			case !s.Subnet.contains(k.IP):
				out.violate("C02.outside-target", sigBase, "argv %v: probe to %v lies outside %v", w.Argv, k, s.Subnet)
			case excluded(exh, k.IP):
				out.violate("C02.excluded-probed", sigBase, "argv %v: probe to %v although excluded by %v", w.Argv, k, cleanExclude(s.Exclude))
			case n > 1 && s.Kind != "docker" && s.Kind != "elastic": // those probes are several connections to one endpoint
				out.violate("C02.probed-twice", sigBase, "argv %v: %v probed %d times within the first %d probes of one pass", w.Argv, k, n, len(got))
			case !s.portless() && !inRanges(s.Ports, k.Port):
				out.violate("C02.outside-target", sigBase+"/port", "argv %v: probe to %v, port not in %v", w.Argv, k, s.Ports)
			default:
				continue
			}
			break
		}
		return out
	}
	ex := parseCIDRs(cleanExclude(s.Exclude))
	var inExcluded, outside, wronglyRemoved []string
	for k := range got {
		if excluded(ex, k.IP) {
			inExcluded = append(inExcluded, k.String())
		} else if want[k] == 0 {
			outside = append(outside, k.String())
		}
	}
	for k := range want {
		if got[k] == 0 {
			wronglyRemoved = append(wronglyRemoved, k.String())
		}
	}
	if len(inExcluded) > 0 {
		out.violate("C02.excluded-probed", sigBase, "argv %v: probes addressed to excluded addresses %v (exclusions %v)", w.Argv, firstN(inExcluded, 6), cleanExclude(s.Exclude))
	}
	if len(outside) > 0 {
		out.violate("C02.outside-target", sigBase, "argv %v: probes addressed outside the target set: %v", w.Argv, firstN(outside, 6))
	}
	if len(wronglyRemoved) > 0 {
		out.violate("C02.over-excluded", sigBase, "argv %v: addresses not covered by any exclusion were not probed: %v (exclusions %v)", w.Argv, firstN(wronglyRemoved, 6), cleanExclude(s.Exclude))
	}
	return out
}

func simrtFault(out *Out, kind string) {
	out.Stats["fault:"+kind]++
}

func init() {
	register(&Suite{Name: "C02-confinement", Prop: "C02", Doc: "exclusion lists, 16-byte entry spellings, non-IPv4 target arguments, exclusion-file faults", Run: runC02})
}

// RedirectTarget is where the redirecting endpoints of C02 point; it is in no target set.
const RedirectTarget = "203.0.113.99"

func redirectSome(n *simnet.Net) {
	n.Lookup = func(addr string) *simnet.Server {
		h := uint64(0x9e37)
		for _, c := range []byte(addr) {
			h = mix64(h, uint64(c))
		}
		if h%3 != 0 || strings.HasPrefix(addr, RedirectTarget+":") {
			return &simnet.Server{Mode: simnet.Refuse, ConnectTime: 200 * time.Microsecond}
		}
		return &simnet.Server{Mode: simnet.Accept, ConnectTime: 100 * time.Microsecond, Handler: func(c *simnet.TCPConn, rec *simnet.ConnRec) {
			defer c.Close()
			buf := make([]byte, 4096)
			var req []byte
			for !bytes.Contains(req, []byte("\r\n\r\n")) {
				k, err := c.Read(buf)
				req = append(req, buf[:k]...)
				if err != nil {
					return
				}
			}
			simrt.Fault("http-redirect")
			port := addr[strings.LastIndex(addr, ":")+1:]
			fmt.Fprintf(c, "HTTP/1.1 307 Temporary Redirect\r\nLocation: http://%s:%s/\r\nContent-Length: 0\r\nConnection: close\r\n\r\n", RedirectTarget, port)
		}}
	}
}
