package harness

import (
	"context"
	"encoding/binary"
	"errors"
	"fmt"
	"io"
	"io/fs"
	"net"
	"os"
	"strings"
	"syscall"
	"testing"
	"time"

	"github.com/google/gopacket"
	"github.com/v-byte-cpu/sx/pkg/packet"

	"verif/sim/simrt"
)

// C20 — the real packet.NewReceiver against a scripted Reader and a recording Processor.

// outcome letters of the scripted reader
const (
	oFrame     = 'F' // frame, processed fine
	oProcErr   = 'P' // frame, processor returns an error
	oEAGAIN    = 'A'
	oTimeout   = 'T' // net.Error with Timeout()
	oConnReset = 'R'
	oUnknown   = 'U'
	oWrapTemp  = 'W' // os.SyscallError wrapping EAGAIN / ECONNRESET, *net.OpError timeout
	oFatal     = 'X' // EOF / EBADF / "use of closed file"
)

var c20Alphabet = []byte{oFrame, oProcErr, oEAGAIN, oTimeout, oConnReset, oUnknown, oWrapTemp, oFatal}

type c20Timeout struct{}

func (c20Timeout) Error() string   { return "poll: timeout" }
func (c20Timeout) Timeout() bool   { return true }
func (c20Timeout) Temporary() bool { return true }

// c20ListErr is an error whose dynamic type is a slice (like go/scanner.ErrorList).
type c20ListErr []string

func (e c20ListErr) Error() string { return e[0] }

type idErr struct {
	kind string
	id   int
}

func (e *idErr) Error() string { return fmt.Sprintf("%s error #%d", e.kind, e.id) }

type c20Scenario struct {
	Script     string `json:"script"`
	Variant    []int  `json:"variant"`
	CancelCall int    `json:"cancel_at_read_call"` // -1 = none
	CancelStep int    `json:"cancel_at_step"`      // 0 = none
	SlowEvery  int    `json:"consumer_slow_every"` // 0 = fast consumer
	SlowFor    string `json:"consumer_slow_for"`
	StopAtCancel bool `json:"consumer_stops_at_cancel,omitempty"` // nobody drains the error channel after the cancel
	DeadlineEnd  bool `json:"ctx_ends_by_deadline,omitempty"`      // the scan context reports context.DeadlineExceeded when it ends (a scan bounded by a deadline)
	StallAfter   int  `json:"consumer_stalls_after,omitempty"`    // the consumer stops after this many errors, cancels 50 ms later and walks away
}

type c20Reader struct {
	ctx         context.Context
	cancel      context.CancelFunc
	script      []byte
	variant     []int
	cancelCall  int
	calls       int
	callT       []time.Duration
	callsAtCanc int
	run         *simrt.Run
}

// c20UnknownErr is the k-th read outcome when it is an "unknown" failure. Besides unique values
// and a value of an uncomparable type, some are bare errnos: the same value comes back every time
// that failure happens again, and each occurrence is a failure of its own that has to be reported.
func c20UnknownErr(k, v int) error {
	switch v {
	case 2, 5, 8:
		// an error value of a type that is not comparable (cannot be a map key, `==` on two of them panics)
		return c20ListErr{fmt.Sprintf("unknown error #%d", k)}
	case 4, 10:
		return syscall.ENETDOWN
	case 7:
		return syscall.EIO
	}
	return &idErr{"unknown", k}
}

func (r *c20Reader) outcomeErr(k int) error {
	v := r.variant[k]
	switch r.script[k] {
	case oEAGAIN:
		return syscall.EAGAIN
	case oTimeout:
		return c20Timeout{}
	case oConnReset:
		return syscall.ECONNRESET
	case oWrapTemp:
		switch v % 3 {
		case 0:
			return os.NewSyscallError("recvfrom", syscall.EAGAIN)
		case 1:
			return fmt.Errorf("read packet: %w", syscall.ECONNRESET)
		default:
			return &net.OpError{Op: "read", Net: "packet", Err: c20Timeout{}}
		}
	case oUnknown:
		return c20UnknownErr(k, v)
	case oFatal:
		switch v % 4 {
		case 0:
			return io.EOF
		case 1:
			return syscall.EBADF
		case 2:
			return errors.New("read afpacket: use of closed file")
		default:
			return &fs.PathError{Op: "read", Path: "socket", Err: errors.New("use of closed file")}
		}
	}
	return nil
}

func (r *c20Reader) ReadPacketData() ([]byte, *gopacket.CaptureInfo, error) {
	simrt.Pre("c20.read")
	k := r.calls
	r.calls++
	r.callT = append(r.callT, r.run.Now())
	if k == r.cancelCall {
		r.callsAtCanc = r.calls
		simrt.Fault("cancel@read")
		r.cancel()
	}
	ci := &gopacket.CaptureInfo{}
	if k < len(r.script) {
		switch r.script[k] {
		case oFrame, oProcErr:
			v := 0
			if k < len(r.variant) {
				v = r.variant[k]
			}
			// frames of different lengths, every byte determined by the frame's number: a processor
			// must get exactly the bytes that were read, no more and no fewer
			b := make([]byte, 6+(v*7)%40)
			binary.BigEndian.PutUint32(b, uint32(k))
			b[4] = r.script[k]
			b[5] = byte(v)
			for i := 6; i < len(b); i++ {
				b[i] = byte(k + i)
			}
			return b, ci, nil
		default:
			return nil, ci, r.outcomeErr(k)
		}
	}
	// script exhausted: the socket stays silent until the scan is cancelled and the caller
	// closes it
	simrt.Recv("c20.read.block", r.ctx.Done())
	return nil, ci, syscall.EBADF
}

type c20Proc struct {
	seen    []int
	damaged []string
}

func (p *c20Proc) ProcessPacketData(data []byte, _ *gopacket.CaptureInfo) error {
	id := int(binary.BigEndian.Uint32(data))
	if want := 6 + (int(data[5])*7)%40; len(data) != want {
		p.damaged = append(p.damaged, fmt.Sprintf("frame %d: read %d bytes, the processor got %d", id, want, len(data)))
	} else {
		for i := 6; i < len(data); i++ {
			if data[i] != byte(id+i) {
				p.damaged = append(p.damaged, fmt.Sprintf("frame %d: byte %d changed on the way to the processor", id, i))
				break
			}
		}
	}
	p.seen = append(p.seen, id)
	if data[4] == oProcErr {
		return c20ProcErr(id, int(data[5]))
	}
	return nil
}

// c20ProcErr is the error the processor returns for frame id. Whatever its value - also one that
// would be transient or fatal had the *reader* returned it (a processor that decodes a truncated
// frame returns io.ErrUnexpectedEOF, one that answers over a socket a timeout) - it is a processing
// error: reported once, never a reason to stop or to stay silent.
func c20ProcErr(id, v int) error {
	switch v {
	case 3:
		return &net.OpError{Op: "write", Net: "udp", Err: c20Timeout{}}
	case 5:
		return io.EOF
	case 6:
		return io.ErrUnexpectedEOF
	case 7:
		return syscall.EAGAIN
	case 8:
		return syscall.ECONNRESET
	case 9:
		return syscall.EBADF
	case 10:
		return io.ErrShortBuffer
	}
	return &idErr{"process", id}
}

// c20Model folds the first k outcomes: frames to process and errors to report, and whether
// the receiver must have terminated (fatal outcome).
func c20Model(script []byte, variant []int, k int) (frames []int, errs []string, fatalAt int, unknowns int) {
	fatalAt = -1
	for i := 0; i < k && i < len(script); i++ {
		switch script[i] {
		case oFrame:
			frames = append(frames, i)
		case oProcErr:
			frames = append(frames, i)
			v := 0
			if i < len(variant) {
				v = variant[i]
			}
			errs = append(errs, c20ProcErr(i, v).Error())
		case oUnknown:
			v := 0
			if i < len(variant) {
				v = variant[i]
			}
			errs = append(errs, c20UnknownErr(i, v).Error())
			unknowns++
		case oFatal:
			return frames, errs, i, unknowns
		}
	}
	return
}

func eqInts(a, b []int) bool {
	if len(a) != len(b) {
		return false
	}
	for i := range a {
		if a[i] != b[i] {
			return false
		}
	}
	return true
}

func eqStrs(a, b []string) bool {
	if len(a) != len(b) {
		return false
	}
	for i := range a {
		if a[i] != b[i] {
			return false
		}
	}
	return true
}

func c20Generate(p picker, o Opts) c20Scenario {
	var sc c20Scenario
	sc.CancelCall = -1
	// enumeration part (thorough): index -> sequence over the alphabet, length 1..5
	maxLen := 4
	if o.Tier == "thorough" {
		maxLen = 5
	}
	total := 0
	pow := 1
	for l := 1; l <= maxLen; l++ {
		pow *= len(c20Alphabet)
		total += pow
	}
	var script []byte
	if o.Index < total*2 {
		idx := o.Index % total
		withCancel := o.Index >= total
		l := 1
		pw := len(c20Alphabet)
		for idx >= pw {
			idx -= pw
			pw *= len(c20Alphabet)
			l++
		}
		for i := 0; i < l; i++ {
			script = append(script, c20Alphabet[idx%len(c20Alphabet)])
			idx /= len(c20Alphabet)
		}
		if withCancel {
			sc.CancelCall = p.n("cancelcall", l+1)
		}
	} else {
		l := 1 + p.n("len", 60)
		if p.pct("long", 10) {
			l = 100 + p.n("len2", 300) // beyond the 100-slot error buffer
		}
		bias := p.n("bias", 4)
		for i := 0; i < l; i++ {
			var c byte
			switch {
			case bias == 1 && p.pct("b", 70):
				c = []byte{oUnknown, oProcErr}[p.n("e", 2)] // error bursts
			case bias == 2 && p.pct("b", 70):
				c = []byte{oEAGAIN, oTimeout, oConnReset, oWrapTemp}[p.n("t", 4)]
			default:
				c = c20Alphabet[p.n("c", len(c20Alphabet)-1)] // no fatal inside
			}
			script = append(script, c)
		}
		if p.pct("fatal", 60) {
			script = append(script, oFatal)
		}
		switch p.n("cancelmode", 4) {
		case 1:
			sc.CancelCall = p.n("cancelcall", len(script)+1)
		case 2:
			sc.CancelStep = 1 + p.n("cancelstep", 40*len(script)+20)
		}
	}
	sc.Script = string(script)
	if !strings.Contains(sc.Script, "X") && sc.CancelCall < 0 {
		// (also the fallback when a cancel step was drawn beyond the end of the execution)
		// make every run end: cancel while the reader waits for traffic after the script
		sc.CancelCall = len(script)
	}
	for range script {
		sc.Variant = append(sc.Variant, p.n("v", 12))
	}
	if p.pct("slow", 35) {
		sc.SlowEvery = 1 + p.n("slowevery", 5)
		d := p.dur("slowfor", time.Millisecond, 30*time.Millisecond)
		sc.SlowFor = d.String()
	}
	if (sc.CancelCall >= 0 || sc.CancelStep > 0) && p.pct("stopatcancel", 25) {
		sc.StopAtCancel = true
	}
	if o.Index >= total*2 && p.pct("stall", 6) {
		// error burst far beyond the 100-slot buffer against a consumer that gives up
		sc.StopAtCancel = true
		sc.StallAfter = 1 + p.n("stallafter", 40)
		sc.CancelStep = 0
		script = script[:0]
		for i, l := 0, 120+p.n("stalllen", 200); i < l; i++ {
			script = append(script, []byte{oUnknown, oProcErr, oFrame}[p.n("se", 3)])
		}
		sc.Script = string(script)
		sc.CancelCall = len(script) // fewer errors than the stall threshold: cancel when the traffic ends
		sc.Variant = sc.Variant[:0]
		for range script {
			sc.Variant = append(sc.Variant, p.n("v", 12))
		}
	}
	// last draw of the scenario (earlier draws keep their meaning): the context ends by a deadline
	sc.DeadlineEnd = p.pct("deadline-end", 25)
	return sc
}

// c20DeadlineCtx is a scan context that ends like one bounded by a deadline: same Done channel,
// Err() = context.DeadlineExceeded once it is done.
type c20DeadlineCtx struct{ context.Context }

func (d c20DeadlineCtx) Err() error {
	if d.Context.Err() != nil {
		return context.DeadlineExceeded
	}
	return nil
}

// ctxDoneIf returns ctx.Done() if on, else a nil channel (never ready).
func ctxDoneIf(on bool, ctx context.Context) <-chan struct{} {
	if on {
		return ctx.Done()
	}
	return nil
}

func runC20(t *testing.T, c simrt.Chooser, o Opts) *Out {
	p := picker{c}
	sc := c20Generate(p, o)
	out := &Out{Scenario: sc, Stats: map[string]int{}}
	script := []byte(sc.Script)
	slowFor, _ := time.ParseDuration(sc.SlowFor)

	var rd *c20Reader
	proc := &c20Proc{}
	var got []string
	closed := false
	stopped := false
	var closeT time.Duration
	res := simrt.Execute(t, simrt.Config{Chooser: c, Trace: o.Trace, SigintStep: sc.CancelStep, MaxSteps: 200000, MaxStepsNoTime: 20000},
		nil,
		func(r *simrt.Run) {
			var ctx context.Context
			ctx, cancel := context.WithCancel(context.Background())
			if sc.DeadlineEnd {
				ctx = c20DeadlineCtx{ctx}
			}
			rd = &c20Reader{ctx: ctx, cancel: cancel, script: script, variant: sc.Variant, cancelCall: sc.CancelCall, run: r}
			r.RegisterSignal(func() {
				rd.callsAtCanc = rd.calls
				cancel()
			})
			errc := packet.NewReceiver(rd, proc).ReceivePackets(ctx)
			n := 0
			for {
				if sc.StopAtCancel && ctx.Err() != nil {
					// the consumer walks away at the cancel: the receiver has to end all the same
					simrt.Sleep("c20.after-cancel", time.Second)
					stopped = true
					return
				}
				e, ok, canc := simrt.RecvCtx("c20.drain", ctxDoneIf(sc.StopAtCancel, ctx), errc)
				if canc {
					continue
				}
				if !ok {
					closed = true
					closeT = r.Now()
					break
				}
				got = append(got, e.Error())
				n++
				if sc.StallAfter > 0 && n == sc.StallAfter {
					simrt.Sleep("c20.stall", 50*time.Millisecond+time.Duration(len(script))*5*time.Millisecond)
					rd.callsAtCanc = rd.calls
					simrt.Cancel("c20.cancel", cancel)
					continue
				}
				if sc.SlowEvery > 0 && n%sc.SlowEvery == 0 {
					simrt.Sleep("c20.slow", slowFor)
				}
			}
			// if neither a fatal outcome nor a cancel ended it, this point is reached only after
			// the driver cancels below; see the idle branch
		})
	out.Res = &res
	_ = closeT

	cancelled := sc.CancelCall >= 0 && rd != nil && rd.calls > sc.CancelCall || res.SigFired
	if rd == nil {
		out.violate("C20.harness", "no-reader", "reader was never created")
		return out
	}
	k := rd.calls
	frames, errs, fatalAt, _ := c20Model(script, sc.Variant, k)

	// The scenario always ends by a fatal outcome or a cancel, except when the script has no
	// fatal outcome and no cancel was planned: then the reader blocks forever and the run
	// legitimately "hangs" waiting for traffic; that case is generated only with a cancel.
	expectEnd := fatalAt >= 0 || cancelled
	if len(res.Panics) > 0 {
		out.violate("C20.panic", "panic", "panic in %s: %s", res.Panics[0].G, res.Panics[0].Value)
	}
	if stopped {
		// The consumer stopped reading at the cancel and waited a full virtual second: by then the
		// receiver goroutine must have ended (it may drop the report in flight, never wait for it).
		simrtProbe(&res, "consumer-stopped-at-cancel")
		for _, a := range res.Alive {
			if strings.Contains(a, "receiver.go") {
				out.violate("C20.cancel-leak", "leak", "receiver goroutine still alive 1s after a cancel with nobody draining the error channel: %s (script %q, %d read calls)", a, sc.Script, rd.calls)
			}
		}
		k := rd.calls
		_, errs, _, _ := c20Model(script, sc.Variant, k)
		if len(got) > len(errs) || !eqStrs(got, errs[:len(got)]) {
			out.violate("C20.errors", "errors", "error stream %v is not a prefix of the model's %v (script %q)", got, errs, sc.Script)
		}
		out.Stats["reads"] = k
		out.Nontrivial = len(script) >= 2
		out.Key = fmt.Sprintf("%s/%d/%d/stop/%016x", sc.Script, sc.CancelCall, sc.CancelStep, res.Hash)
		return out
	}
	if expectEnd && (!closed || res.End != simrt.EndDriverReturned) {
		out.violate("C20.termination", "no-close", "error channel not closed after fatal outcome/cancel: end=%v calls=%d script=%q blocked=%v", res.End, k, sc.Script, res.Blocked)
	}
	if !expectEnd && !closed && res.End != simrt.EndDriverReturned {
		// every generated scenario ends with a fatal outcome or a cancel at a read call: a run that
		// reaches neither stopped reading although traffic was waiting
		out.violate("C20.stalled", "stopped-reading", "the receiver stopped reading after %d of %d scripted outcomes without a fatal outcome or a cancel (run ended: %v); script %q", k, len(script), res.End, sc.Script)
	}
	if !expectEnd && closed {
		out.violate("C20.termination", "early-close", "error channel closed although neither a fatal outcome nor a cancel occurred: script=%q calls=%d", sc.Script, k)
	}
	if res.End == simrt.EndBusyLoop {
		out.violate("C20.busyloop", "busy", "more than 20000 scheduling steps without virtual time advancing")
	}
	if len(proc.damaged) > 0 {
		out.violate("C20.frames", "bytes", "%v (script %q)", firstN(proc.damaged, 3), sc.Script)
	}
	// frames: every frame returned by the reader is processed exactly once, in order
	if !eqInts(proc.seen, frames) {
		out.violate("C20.frames", "frames", "processor saw %v, model says %v (script %q, %d read calls)", proc.seen, frames, sc.Script, k)
	}
	// errors
	okErrs := eqStrs(got, errs)
	if !okErrs && cancelled && len(errs) > 0 && eqStrs(got, errs[:len(errs)-1]) {
		// after a cancel the report of the outcome that was in flight may be dropped
		last := script[min(k, len(script))-1]
		if last == oProcErr || last == oUnknown {
			okErrs = true
		}
	}
	if !okErrs {
		out.violate("C20.errors", "errors", "error stream %v, model says %v (script %q, %d read calls, cancelled=%v)", got, errs, sc.Script, k, cancelled)
	}
	// reader not called again after a fatal outcome
	if fatalAt >= 0 && k != fatalAt+1 {
		out.violate("C20.fatal-stop", "read-after-fatal", "reader called %d times, fatal outcome at call %d", k, fatalAt)
	}
	// at most one more read after a cancel
	if cancelled && rd.callsAtCanc > 0 && k > rd.callsAtCanc+1 {
		out.violate("C20.cancel-stop", "read-after-cancel", "%d read calls after the cancel (calls at cancel %d, total %d)", k-rd.callsAtCanc, rd.callsAtCanc, k)
	}
	// time: "reading continues" - with a consumer that keeps up, the next read follows within a
	// second of virtual time whatever the previous outcome was (the length of the pause after an
	// unknown error is the implementation's business: 5 ms today; a pause that grows without bound
	// or a receiver that falls asleep is not)
	if sc.SlowEvery == 0 {
		for i := 0; i+1 < len(rd.callT) && i < len(script); i++ {
			d := rd.callT[i+1] - rd.callT[i]
			if cancelled && i+1 >= rd.callsAtCanc-1 {
				continue
			}
			if d > time.Second {
				out.violate("C20.stalled", "stalled", "virtual time between read call %d (%c) and %d is %v: reading did not continue", i, script[i], i+1, d)
				break
			}
		}
	}
	out.Stats["reads"] = k
	out.Stats["errors"] = len(got)
	if len(got) > 100 {
		simrtProbe(&res, "errc-over-100")
	}
	out.Nontrivial = len(script) >= 2 && strings.ContainsAny(sc.Script, "FPU")
	out.Key = fmt.Sprintf("%s/%d/%d/%d/%016x", sc.Script, sc.CancelCall, sc.CancelStep, sc.SlowEvery, res.Hash)
	return out
}

func simrtProbe(res *simrt.Result, name string) {
	if res.Probes == nil {
		res.Probes = map[string]int{}
	}
	res.Probes[name]++
}

func init() {
	register(&Suite{Name: "C20-receiver", Prop: "C20", Doc: "real packet.Receiver vs scripted reader outcomes, cancel at read call / scheduling step", Run: runC20,
		Enum: func(tier string) int {
			n, pw := 0, 1
			maxLen := 4
			if tier == "thorough" {
				maxLen = 5
			}
			for l := 1; l <= maxLen; l++ {
				pw *= len(c20Alphabet)
				n += pw
			}
			return 2 * n
		}})
}
