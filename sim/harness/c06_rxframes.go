package harness

import (
	"context"
	"encoding/json"
	"fmt"
	"io"
	"strings"
	"testing"
	"time"

	"github.com/google/gopacket"
	"github.com/v-byte-cpu/sx/pkg/packet"
	"github.com/v-byte-cpu/sx/pkg/scan"
	"github.com/v-byte-cpu/sx/pkg/scan/arp"
	"github.com/v-byte-cpu/sx/pkg/scan/icmp"
	"github.com/v-byte-cpu/sx/pkg/scan/tcp"

	"verif/sim/pktcodec"
	"verif/sim/simrt"
)

// C06 — receive path: arbitrary frames never crash it and never yield phantom data (library
// level).  The real packet.Receiver + the real ARP / TCP / ICMP processor (both link modes) +
// the real result channel are fed by a scripted reader, one frame at a time: frame i+1 is
// delivered only after the whole pipeline was quiescent (virtual time advanced), so every
// record is attributed to exactly one frame.

type c06Frame struct {
	data []byte
	tag  string
}

type c06Scenario struct {
	Proc   string   `json:"processor"` // arp | tcp | icmp
	VPN    bool     `json:"raw_ip_framing"`
	Frames []string `json:"frames"`
	Pair   bool     `json:"enumerated_pair,omitempty"`
	Burst  bool     `json:"burst,omitempty"` // frames delivered back to back: several records in flight at once
}

var (
	c06Our  = pktcodec.IP4(0x0a000001)
	c06Peer = pktcodec.IP4(0x0a000063)
	c06OurM = [6]byte{2, 0, 0, 0, 0, 1}
	c06PeerM = [6]byte{2, 0x11, 0x0a, 0, 0, 0x63}
)

func c06Wrap(vpn bool, etherType uint16, body []byte) []byte {
	if vpn {
		return body
	}
	return append(pktcodec.EthHeader(c06OurM, c06PeerM, etherType), body...)
}

// validFrame builds a well-formed reply of the given flavour with distinguishing field values.
func c06Valid(kind string, vpn bool, v int) c06Frame {
	src := pktcodec.IP4(0x0a000000 + uint32(10+v%200))
	opts := pktcodec.IPOpts{ID: uint16(100 + v), TTL: uint8(30 + v%200)}
	if v%3 == 1 {
		opts.Options = []byte{1, 1, 1, 1}
	}
	switch kind {
	case "tcp":
		flags := []uint16{pktcodec.SYN | pktcodec.ACK, pktcodec.RST | pktcodec.ACK, pktcodec.FIN | pktcodec.PSH | pktcodec.URG, pktcodec.NS | pktcodec.CWR | pktcodec.ECE, 0}[v%5]
		var topts []byte
		if v%2 == 1 {
			topts = []byte{2, 4, 5, 0xb4}
		}
		seg := pktcodec.EncodeTCP(src, c06Our, uint16(1000+v), 40000, 7, 8, flags, 512, topts, []byte(strings.Repeat("d", v%7)))
		return c06Frame{c06Wrap(vpn, pktcodec.EtherTypeIPv4, pktcodec.EncodeIPv4(src, c06Our, pktcodec.ProtoTCP, seg, opts)), fmt.Sprintf("valid-tcp#%d", v)}
	case "icmp":
		body := pktcodec.EncodeICMP(uint8([]int{0, 3, 11, 8, 13}[v%5]), uint8(v%16), [4]byte{0, 1, 0, 2}, []byte(strings.Repeat("p", v%9)))
		return c06Frame{c06Wrap(vpn, pktcodec.EtherTypeIPv4, pktcodec.EncodeIPv4(src, c06Our, pktcodec.ProtoICMP, body, opts)), fmt.Sprintf("valid-icmp#%d", v)}
	case "udp":
		d := pktcodec.EncodeUDP(src, c06Our, uint16(2000+v), 40001, []byte("u"))
		return c06Frame{c06Wrap(vpn, pktcodec.EtherTypeIPv4, pktcodec.EncodeIPv4(src, c06Our, pktcodec.ProtoUDP, d, opts)), fmt.Sprintf("valid-udp#%d", v)}
	default: // arp (Ethernet only)
		mac := [6]byte{2, 0x22, 0, 0, 0, byte(v)}
		body := pktcodec.EncodeARP(&pktcodec.ARP{HType: 1, PType: pktcodec.EtherTypeIPv4, HLen: 6, PLen: 4, Op: uint16(1 + v%2), SHA: mac[:], SPA: src[:], THA: c06OurM[:], TPA: c06Our[:]})
		f := append(pktcodec.EthHeader(c06OurM, mac, pktcodec.EtherTypeARP), body...)
		if v%2 == 0 {
			f = append(f, make([]byte, 18)...) // padded to the minimum frame size
		}
		return c06Frame{f, fmt.Sprintf("valid-arp#%d", v)}
	}
}

func ipOff(vpn bool) int {
	if vpn {
		return 0
	}
	return 14
}

// c06Catalogue: deterministic frame shapes for one processor / link mode.
func c06Catalogue(proc string, vpn bool) []c06Frame {
	var out []c06Frame
	add := func(f c06Frame) { out = append(out, f) }
	own := proc
	for v := 0; v < 5; v++ {
		add(c06Valid(own, vpn, v))
	}
	// frames of the other protocols
	for _, k := range []string{"tcp", "icmp", "udp", "arp"} {
		if k == own || (k == "arp" && vpn) {
			continue
		}
		add(c06Valid(k, vpn, 7))
		add(c06Valid(k, vpn, 8))
	}
	if proc == "arp" {
		base := c06Valid("arp", false, 3).data[:42]
		for _, hl := range []int{0, 1, 2, 3, 5, 7, 8, 16, 255} {
			for _, pl := range []int{4, 0, 16} {
				a := &pktcodec.ARP{HType: 1, PType: pktcodec.EtherTypeIPv4, HLen: uint8(hl), PLen: uint8(pl), Op: 2, SHA: make([]byte, hl), SPA: make([]byte, pl), THA: make([]byte, hl), TPA: make([]byte, pl)}
				for i := range a.SHA {
					a.SHA[i] = byte(0xa0 + i)
				}
				for i := range a.SPA {
					a.SPA[i] = byte(10 + i)
				}
				f := append(pktcodec.EthHeader(c06OurM, c06PeerM, pktcodec.EtherTypeARP), pktcodec.EncodeARP(a)...)
				add(c06Frame{f, fmt.Sprintf("arp-hlen%d-plen%d", hl, pl)})
			}
		}
		for _, pl := range []int{0, 1, 3, 5, 8, 255} {
			a := &pktcodec.ARP{HType: 1, PType: pktcodec.EtherTypeIPv4, HLen: 6, PLen: uint8(pl), Op: 2, SHA: c06PeerM[:], SPA: make([]byte, pl), THA: make([]byte, 6), TPA: make([]byte, pl)}
			add(c06Frame{append(pktcodec.EthHeader(c06OurM, c06PeerM, pktcodec.EtherTypeARP), pktcodec.EncodeARP(a)...), fmt.Sprintf("arp-hlen6-plen%d", pl)})
		}
		// sizes announced but body missing / short
		for _, cut := range []int{14, 15, 21, 22, 28, 30, 36, 41} {
			add(c06Frame{append([]byte{}, base[:cut]...), fmt.Sprintf("arp-truncated@%d", cut)})
		}
		for _, ht := range []uint16{0, 6, 0xffff} {
			f := append([]byte{}, base...)
			f[14], f[15] = byte(ht>>8), byte(ht)
			add(c06Frame{f, fmt.Sprintf("arp-htype%d", ht)})
		}
		for _, pt := range []uint16{0x86dd, 0} {
			f := append([]byte{}, base...)
			f[16], f[17] = byte(pt>>8), byte(pt)
			add(c06Frame{f, fmt.Sprintf("arp-ptype%#x", pt)})
		}
		// address sizes that keep the total ARP length at 28 bytes
		for _, hp := range [][2]int{{4, 6}, {5, 5}, {0, 10}, {10, 0}, {8, 2}, {7, 3}, {2, 8}} {
			a := &pktcodec.ARP{HType: 1, PType: pktcodec.EtherTypeIPv4, HLen: uint8(hp[0]), PLen: uint8(hp[1]), Op: 2,
				SHA: []byte{0x00, 0x50, 0x56, 0xaa, 0xbb, 0xcc, 0xdd, 0xee, 0xf0, 0x0d}[:hp[0]], SPA: []byte{10, 0, 0, 77, 1, 2, 3, 4, 5, 6}[:hp[1]], THA: make([]byte, hp[0]), TPA: make([]byte, hp[1])}
			add(c06Frame{append(pktcodec.EthHeader(c06OurM, c06PeerM, pktcodec.EtherTypeARP), pktcodec.EncodeARP(a)...), fmt.Sprintf("arp-hlen%d-plen%d", hp[0], hp[1])})
		}
		// other ethertypes in front of an ARP body / an inner Ethernet frame (transparent bridging)
		for _, et := range []uint16{0x0800, 0x86dd, 0x8100, 0x88a8, 0x8035, 0x05dc, 0xffff} {
			f := append([]byte{}, base...)
			f[12], f[13] = byte(et>>8), byte(et)
			add(c06Frame{f, fmt.Sprintf("ethertype=%#04x+arp-body", et)})
		}
		for _, inner := range []string{"arp", "eth-only", "ipv4"} {
			f := pktcodec.EthHeader(c06OurM, c06PeerM, 0x6558)
			switch inner {
			case "arp":
				f = append(f, c06Valid("arp", false, 9).data...)
			case "eth-only":
				f = append(f, pktcodec.EthHeader(c06OurM, c06PeerM, 0x9999)...)
			default:
				f = append(f, c06Valid("icmp", false, 9).data...)
			}
			add(c06Frame{f, "eth-in-eth-" + inner})
		}
	} else {
		valid := c06Valid(own, vpn, 2).data // has IP options? v=2: no
		validOpt := c06Valid(own, vpn, 1).data
		o := ipOff(vpn)
		for _, base := range [][]byte{valid, validOpt} {
			ihl := int(base[o]&0xf) * 4
			// truncation at every header boundary +-1
			for _, cut := range []int{0, 1, o - 1, o, o + 1, o + 19, o + 20, o + ihl - 1, o + ihl, o + ihl + 1, o + ihl + 7, o + ihl + 8, o + ihl + 19, o + ihl + 20} {
				if cut >= 0 && cut < len(base) {
					add(c06Frame{append([]byte{}, base[:cut]...), fmt.Sprintf("truncated@%d", cut)})
				}
			}
		}
		mut := func(tag string, f func(b []byte)) {
			b := append([]byte{}, valid...)
			f(b)
			add(c06Frame{b, tag})
		}
		fixCsum := func(b []byte) {
			h := int(b[o]&0xf) * 4
			if h < 20 || o+h > len(b) {
				return
			}
			b[o+10], b[o+11] = 0, 0
			c := pktcodec.Checksum(b[o : o+h])
			b[o+10], b[o+11] = byte(c>>8), byte(c)
		}
		for ihl := 0; ihl < 16; ihl++ {
			if ihl == 5 {
				continue
			}
			ihl := ihl
			mut(fmt.Sprintf("ihl=%d", ihl), func(b []byte) { b[o] = 0x40 | byte(ihl); fixCsum(b) })
		}
		for _, ver := range []int{0, 5, 6, 15} {
			ver := ver
			mut(fmt.Sprintf("ipversion=%d", ver), func(b []byte) { b[o] = byte(ver)<<4 | 5 })
		}
		for _, tl := range []int{0, 19, 20, 21, 27, 39, 40, 1500, 65535} {
			tl := tl
			mut(fmt.Sprintf("totallen=%d", tl), func(b []byte) { b[o+2], b[o+3] = byte(tl>>8), byte(tl); fixCsum(b) })
		}
		for _, fr := range []struct {
			v   uint16
			tag string
		}{{0x2000, "mf-offset0"}, {0x0001, "offset1"}, {0x2001, "mf-offset1"}, {0x1fff, "offset-max"}, {0x4000, "df"}, {0x8000, "evil"}} {
			fr := fr
			mut("frag-"+fr.tag, func(b []byte) { b[o+6], b[o+7] = byte(fr.v>>8), byte(fr.v); fixCsum(b) })
		}
		for _, pr := range []int{0, 2, 4, 17, 41, 47, 50, 132, 255, 1, 6} {
			pr := pr
			mut(fmt.Sprintf("proto=%d", pr), func(b []byte) { b[o+9] = byte(pr); fixCsum(b) })
		}
		mut("bad-ip-checksum", func(b []byte) { b[o+10] ^= 0xff })
		if own == "tcp" {
			for do := 0; do < 16; do++ {
				if do == 5 {
					continue
				}
				do := do
				mut(fmt.Sprintf("dataoffset=%d", do), func(b []byte) { b[o+20+12] = byte(do)<<4 | b[o+20+12]&0xf })
			}
			mut("bad-tcp-checksum", func(b []byte) { b[o+20+16] ^= 0xff })
		} else {
			mut("bad-icmp-checksum", func(b []byte) { b[o+20+2] ^= 0xff })
		}
		if !vpn {
			for _, et := range []uint16{0x86dd, 0x8100, 0x88a8, 0x0000, 0x05dc, 0x0801, 0xffff, pktcodec.EtherTypeARP} {
				et := et
				mut(fmt.Sprintf("ethertype=%#04x", et), func(b []byte) { b[12], b[13] = byte(et>>8), byte(et) })
			}
		}
		if !vpn {
			for _, inner := range []string{"own", "eth-only", "arp"} {
				f := pktcodec.EthHeader(c06OurM, c06PeerM, 0x6558)
				switch inner {
				case "own":
					f = append(f, c06Valid(own, false, 9).data...)
				case "eth-only":
					f = append(f, pktcodec.EthHeader(c06OurM, c06PeerM, 0x9999)...)
				default:
					f = append(f, c06Valid("arp", false, 9).data...)
				}
				add(c06Frame{f, "eth-in-eth-" + inner})
			}
		}
		// IP-in-IP: the outer datagram carries another datagram, nested 1..3 deep, inner transport
		// being the scanned protocol, another one, or nothing
		src := pktcodec.IP4(0x0a0000c8)
		innerSrc := pktcodec.IP4(0xc0a80909)
		for depth := 1; depth <= 3; depth++ {
			for _, inner := range []string{"own", "udp", "none", "short"} {
				var payload []byte
				proto := uint8(pktcodec.ProtoUDP)
				switch inner {
				case "own":
					if own == "tcp" {
						payload, proto = pktcodec.EncodeTCP(innerSrc, c06Our, 4444, 40000, 1, 1, pktcodec.SYN|pktcodec.ACK, 100, nil, nil), pktcodec.ProtoTCP
					} else {
						payload, proto = pktcodec.EncodeICMP(0, 0, [4]byte{}, []byte("in")), pktcodec.ProtoICMP
					}
				case "udp":
					payload = pktcodec.EncodeUDP(innerSrc, c06Our, 5555, 40000, []byte("x"))
				case "none":
					proto = 253
				case "short":
					payload, proto = []byte{1, 2, 3}, uint8(map[string]int{"tcp": pktcodec.ProtoTCP, "icmp": pktcodec.ProtoICMP}[own])
				}
				dg := pktcodec.EncodeIPv4(innerSrc, c06Our, proto, payload, pktcodec.IPOpts{ID: 9, TTL: 99})
				for d := 1; d < depth; d++ {
					dg = pktcodec.EncodeIPv4(pktcodec.IP4(0xac100000+uint32(d)), c06Our, pktcodec.ProtoIPIP, dg, pktcodec.IPOpts{ID: 8, TTL: uint8(50 + d)})
				}
				outer := pktcodec.EncodeIPv4(src, c06Our, pktcodec.ProtoIPIP, dg, pktcodec.IPOpts{ID: 7, TTL: 77})
				add(c06Frame{c06Wrap(vpn, pktcodec.EtherTypeIPv4, outer), fmt.Sprintf("ipip-depth%d-inner-%s", depth, inner)})
			}
		}
	}
	add(c06Frame{nil, "empty"})
	add(c06Frame{[]byte{0x45}, "one-byte"})
	add(c06Frame{make([]byte, 64), "64-zero-bytes"})
	add(c06Frame{[]byte(strings.Repeat("\xff", 80)), "80-ff-bytes"})
	return out
}

// c06Expect classifies a frame from its bytes alone: must / may / must-not produce a record,
// and the record's fields.
type c06Verdict struct {
	must, may bool
	fields    string
}

func c06Classify(proc string, vpn bool, data []byte) c06Verdict {
	p, err := pktcodec.Decode(data, !vpn)
	if err != nil || p == nil {
		return c06Verdict{}
	}
	tso := false
	if p.IP != nil && p.IP.TotalLen == 0 {
		// captured frames of segmentation-offloading NICs carry total length 0 (= "the rest of the
		// frame"); whether such a frame counts as well-formed is left open: decode it that way, "may"
		o := ipOff(vpn)
		d := append([]byte{}, data...)
		l := len(d) - o
		d[o+2], d[o+3] = byte(l>>8), byte(l)
		if q, err := pktcodec.Decode(d, !vpn); err == nil {
			p, tso = q, true
		}
	}
	clean := !tso && len(p.Problems) == 0 && (p.IP == nil || (p.IP.FragOff == 0 && p.IP.Flags&1 == 0))
	// malformed IPv4 / TCP options (an option kind without or with an impossible length): the header
	// chain is there but not well-formed; a decoder may refuse the frame
	if p.IP != nil && pktcodec.TCPOptionsWellFormed(p.IP.Options) != nil {
		clean = false
	}
	if p.TCP != nil && pktcodec.TCPOptionsWellFormed(p.TCP.Options) != nil {
		clean = false
	}
	switch proc {
	case "arp":
		if p.ARP == nil || p.ARP.HType != 1 || p.ARP.PType != pktcodec.EtherTypeIPv4 || p.ARP.HLen != 6 || p.ARP.PLen != 4 {
			return c06Verdict{}
		}
		var a [4]byte
		copy(a[:], p.ARP.SPA)
		return c06Verdict{must: true, may: true, fields: fmt.Sprintf("ip=%s mac=%s", pktcodec.IPString(a), pktcodec.MACString(p.ARP.SHA))}
	case "tcp":
		if p.IP == nil || p.TCP == nil {
			return c06Verdict{}
		}
		return c06Verdict{must: clean, may: true, fields: fmt.Sprintf("ip=%s port=%d flags=%s", pktcodec.IPString(p.IP.Src), p.TCP.SrcPort, flagString(p.TCP.Flags))}
	default:
		if p.IP == nil || p.ICMP == nil {
			return c06Verdict{}
		}
		return c06Verdict{must: clean, may: true, fields: fmt.Sprintf("ip=%s ttl=%d type=%d code=%d", pktcodec.IPString(p.IP.Src), p.IP.TTL, p.ICMP.Type, p.ICMP.Code)}
	}
}

func c06RecordFields(proc string, r scan.Result) string {
	b, err := r.MarshalJSON()
	if err != nil {
		return "unmarshalable: " + err.Error()
	}
	var m map[string]interface{}
	dec := json.NewDecoder(strings.NewReader(string(b)))
	dec.UseNumber()
	if err := dec.Decode(&m); err != nil {
		return "not-json: " + string(b)
	}
	switch proc {
	case "arp":
		return fmt.Sprintf("ip=%v mac=%v", m["ip"], m["mac"])
	case "tcp":
		fl, _ := m["flags"].(string)
		return fmt.Sprintf("ip=%v port=%v flags=%s", m["ip"], m["port"], fl)
	default:
		ic, _ := m["icmp"].(map[string]interface{})
		return fmt.Sprintf("ip=%v ttl=%v type=%v code=%v", m["ip"], m["ttl"], ic["type"], ic["code"])
	}
}

// c06NoProbes is a packet source without probes (the suite is about the receive path).
type c06NoProbes struct{}

func (c06NoProbes) Packets(ctx context.Context, r *scan.Range) <-chan *packet.BufferData {
	ch := make(chan *packet.BufferData)
	close(ch)
	return ch
}

// c06RW is the reader plus a writer nobody uses.
type c06RW struct{ *c06Reader }

func (c06RW) WritePacketData([]byte) error { return nil }

type c06Reader struct {
	frames chan []byte
	ctx    context.Context
	calls  int
	ring   []byte // zero-copy ring slot: every frame is handed out in the same memory
}

func (r *c06Reader) ReadPacketData() ([]byte, *gopacket.CaptureInfo, error) {
	r.calls++
	f, ok, cancelled := simrt.RecvCtx("c06.read", r.ctx.Done(), r.frames)
	if cancelled || !ok {
		return nil, &gopacket.CaptureInfo{}, io.EOF
	}
	// like the AF_PACKET ring: the slice of the previous frame is overwritten by this one
	if cap(r.ring) < len(f) {
		r.ring = make([]byte, len(f), 2048+len(f))
	}
	full := r.ring[:cap(r.ring)]
	for i := range full {
		full[i] = 0xa5
	}
	r.ring = r.ring[:len(f)]
	copy(r.ring, f)
	return r.ring, &gopacket.CaptureInfo{Length: len(f), CaptureLength: len(f)}, nil
}

var c06Modes = []struct {
	proc string
	vpn  bool
}{{"arp", false}, {"tcp", false}, {"tcp", true}, {"icmp", false}, {"icmp", true}}

func c06EnumSize() int {
	n := 0
	for _, m := range c06Modes {
		k := len(c06Catalogue(m.proc, m.vpn))
		n += k * k
	}
	return n
}

func runC06(t *testing.T, c simrt.Chooser, o Opts) *Out {
	p := picker{c}
	sc := &c06Scenario{}
	var frames []c06Frame
	// enumeration of ordered pairs: run indexes [0, sum K_m^2)
	idx := o.Index
	enum := false
	for _, m := range c06Modes {
		cat := c06Catalogue(m.proc, m.vpn)
		k := len(cat)
		if idx < k*k {
			sc.Proc, sc.VPN, sc.Pair = m.proc, m.vpn, true
			frames = []c06Frame{cat[idx/k], cat[idx%k]}
			enum = true
			break
		}
		idx -= k * k
	}
	if !enum {
		m := c06Modes[p.n("mode", len(c06Modes))]
		sc.Proc, sc.VPN = m.proc, m.vpn
		cat := c06Catalogue(m.proc, m.vpn)
		n := 1 + p.n("nframes", 40)
		for i := 0; i < n; i++ {
			var f c06Frame
			switch p.n("fkind", 10) {
			case 0, 1, 2:
				f = c06Valid(m.proc, m.vpn, p.n("validv", 250))
			case 3, 4, 5, 6:
				f = cat[p.n("cat", len(cat))]
			case 7: // byte flips in a valid or catalogue frame
				b := cat[p.n("cat2", len(cat))]
				d := append([]byte{}, b.data...)
				for k := 1 + p.n("nflip", 4); k > 0 && len(d) > 0; k-- {
					d[p.n("flippos", len(d))] ^= byte(1 << p.n("flipbit", 8))
				}
				f = c06Frame{d, b.tag + "+flips"}
			case 8: // random bytes, or (ARP) random address sizes with a body of matching or non-matching length
				if m.proc == "arp" && p.bool("arpsizes") {
					hl, pl := p.n("rhlen", 12), p.n("rplen", 12)
					a := &pktcodec.ARP{HType: 1, PType: pktcodec.EtherTypeIPv4, HLen: uint8(hl), PLen: uint8(pl), Op: uint16(1 + p.n("rop", 2)),
						SHA: make([]byte, hl), SPA: make([]byte, pl), THA: make([]byte, hl), TPA: make([]byte, pl)}
					for k := range a.SHA {
						a.SHA[k] = byte(p.n("rsha", 256))
					}
					for k := range a.SPA {
						a.SPA[k] = byte(p.n("rspa", 256))
					}
					fr := append(pktcodec.EthHeader(c06OurM, c06PeerM, pktcodec.EtherTypeARP), pktcodec.EncodeARP(a)...)
					if p.bool("rpad") {
						fr = append(fr, make([]byte, p.n("rpadn", 20))...)
					}
					f = c06Frame{fr, fmt.Sprintf("arp-random-hlen%d-plen%d", hl, pl)}
					break
				}
				d := make([]byte, p.n("rlen", 120))
				for k := range d {
					d[k] = byte(p.n("rb", 256))
				}
				f = c06Frame{d, "random-bytes"}
			default: // a valid frame directly followed by one that lacks the transport header
				frames = append(frames, c06Valid(m.proc, m.vpn, p.n("validv2", 250)))
				f = cat[5+p.n("cat3", len(cat)-5)]
			}
			frames = append(frames, f)
		}
	}
	if !enum && p.pct("burst", 30) {
		// burst: no quiescence between the frames, so records of several frames are in the result
		// buffers at the same time (a record must not share state with a later one).  Only frames
		// whose verdict is certain take part; records are compared as a sequence.
		sc.Burst = true
		var keep []c06Frame
		for _, f := range frames {
			if v := c06Classify(sc.Proc, sc.VPN, f.data); v.must || !v.may {
				keep = append(keep, f)
			}
		}
		frames = keep
	}
	for _, f := range frames {
		sc.Frames = append(sc.Frames, f.tag)
	}
	if len(frames) == 0 {
		frames = []c06Frame{{nil, "empty"}}
		sc.Frames = []string{"empty"}
	}
	out := &Out{Scenario: sc, Stats: map[string]int{"frames": len(frames)}}
	type perFrame struct {
		recs []string
		errs int
	}
	got := make([]perFrame, len(frames))
	var held []scan.Result
	finished := false
	var reader *c06Reader
	errClosed := false
	res := simrt.Execute(t, simrt.Config{Chooser: c, Trace: o.Trace, MaxSteps: 200_000}, nil, func(r *simrt.Run) {
		ctx, cancel := context.WithCancel(context.Background())
		defer cancel()
		results := scan.NewResultChan(ctx, 1000)
		// wired exactly as the commands do it: scan.SetupPacketEngine(rw, method) builds sender,
		// receiver and engine around the scan method; the source of probes is empty here
		var method scan.PacketMethod
		src := c06NoProbes{}
		switch sc.Proc {
		case "arp":
			method = arp.NewScanMethod(src, results)
		case "tcp":
			method = tcp.NewScanMethod("tcpflags", src, results, tcp.WithScanVPNmode(sc.VPN))
		default:
			method = icmp.NewScanMethod(src, results, sc.VPN)
		}
		reader = &c06Reader{frames: make(chan []byte), ctx: ctx}
		engine := scan.SetupPacketEngine(c06RW{reader}, method)
		resc := engine.Results()
		_, errc := engine.Start(ctx, &scan.Range{})
		cur := 0
		simrt.Go("c06.results", func() {
			for {
				v, ok, cancelled := simrt.RecvCtx("c06.results.recv", ctx.Done(), resc)
				if cancelled || !ok {
					return
				}
				if sc.Burst {
					held = append(held, v) // looked at only after the whole burst went through
					continue
				}
				got[cur].recs = append(got[cur].recs, c06RecordFields(sc.Proc, v))
			}
		})
		simrt.Go("c06.errors", func() {
			for {
				_, ok := simrt.Recv2("c06.errors.recv", errc)
				if !ok {
					errClosed = true
					return
				}
				got[cur].errs++
			}
		})
		for i, f := range frames {
			if !sc.Burst {
				cur = i
			}
			simrt.Pre("c06.deliver")
			reader.frames <- f.data
			simrt.Post()
			if sc.Burst {
				continue
			}
			// virtual time advances only when every goroutine is blocked: the frame has gone through
			// processor, result channel and consumers
			simrt.Sleep("c06.quiesce", time.Microsecond)
		}
		if sc.Burst {
			simrt.Sleep("c06.quiesce", time.Microsecond)
		}
		simrt.Cancel("c06.cancel", cancel)
		simrt.Sleep("c06.wind-down", time.Millisecond)
		finished = true
	})
	out.Res = &res
	out.Nontrivial = len(frames) >= 2
	out.Key = fmt.Sprintf("%s/%v/%s/%016x", sc.Proc, sc.VPN, strings.Join(sc.Frames, ","), res.Hash)
	mode := sc.Proc
	if sc.VPN {
		mode += "/raw-ip"
	}
	if len(res.Panics) > 0 {
		out.violate("C06.panic", mode+"/"+firstLine(res.Panics[0].Value), "frames %v: panic in %s: %s\n%s", sc.Frames, res.Panics[0].G, res.Panics[0].Value, trimStack(res.Panics[0].Stack))
		return out
	}
	if !finished {
		out.violate("C06.hang", mode+"/"+res.End.String(), "frames %v: processing did not terminate: %v at %v; parked %v", sc.Frames, res.End, res.Virt, firstN(res.Blocked, 8))
		return out
	}
	if reader.calls < len(frames) {
		out.violate("C06.receiver-stopped", mode, "the receiver read %d of %d frames", reader.calls, len(frames))
	}
	if sc.Burst {
		var wantSeq, gotSeq []string
		for _, f := range frames {
			if v := c06Classify(sc.Proc, sc.VPN, f.data); v.must {
				wantSeq = append(wantSeq, v.fields)
			}
		}
		for _, r := range held {
			gotSeq = append(gotSeq, c06RecordFields(sc.Proc, r))
		}
		if !eqStrs(gotSeq, wantSeq) {
			k := 0
			for k < len(gotSeq) && k < len(wantSeq) && gotSeq[k] == wantSeq[k] {
				k++
			}
			g, w := "(none)", "(none)"
			if k < len(gotSeq) {
				g = gotSeq[k]
			}
			if k < len(wantSeq) {
				w = wantSeq[k]
			}
			out.violate("C06.burst-records", mode, "burst of %d frames %v: %d records, %d expected; first difference at record %d: got {%s}, the frame says {%s} (records that were in flight together must each describe their own frame)", len(frames), sc.Frames, len(gotSeq), len(wantSeq), k, g, w)
		}
		out.Stats["burst_runs"]++
		simrtProbe(&res, "burst-records-in-flight")
		return out
	}
	for i, f := range frames {
		v := c06Classify(sc.Proc, sc.VPN, f.data)
		g := got[i]
		prev := "-"
		if i > 0 {
			prev = frames[i-1].tag
		}
		base := strings.SplitN(f.tag, "#", 2)[0]
		base = strings.SplitN(base, "@", 2)[0]
		switch {
		case len(g.recs) > 1:
			out.violate("C06.multiple-records", mode+"/"+base, "frame %d (%s) produced %d records: %v", i, f.tag, len(g.recs), g.recs)
		case len(g.recs) == 1 && !v.may:
			out.violate("C06.phantom", mode+"/"+base, "frame %d (%s, %d bytes: %x) does not contain a well-formed header chain of the scanned protocol but produced the record {%s}; previous frame: %s", i, f.tag, len(f.data), f.data[:min(len(f.data), 60)], g.recs[0], prev)
		case len(g.recs) == 1 && g.recs[0] != v.fields:
			out.violate("C06.stale-fields", mode+"/"+base, "frame %d (%s) produced {%s} but the frame itself says {%s}; previous frame: %s", i, f.tag, g.recs[0], v.fields, prev)
		case len(g.recs) == 0 && v.must:
			out.violate("C06.missed", mode+"/"+base, "frame %d (%s) is a well-formed reply {%s} but produced no record (errors on the error channel: %d); previous frame: %s", i, f.tag, v.fields, g.errs, prev)
		}
		if len(g.recs) == 1 {
			out.Stats["records"]++
		}
		if g.errs > 0 {
			out.Stats["decode_errors"] += g.errs
			if i+1 < len(frames) {
				simrtProbe(&res, "frame-after-decode-error")
			}
		}
		if len(out.Violations) > 0 {
			break
		}
	}
	_ = errClosed
	return out
}

func init() {
	register(&Suite{Name: "C06-rxframes", Prop: "C06", Doc: "real receiver + ARP/TCP/ICMP processors (both link modes) fed frame by frame with valid, mutated, nested and random frames; record attribution by quiescence", Run: runC06,
		Enum: func(string) int { return c06EnumSize() }})
}
