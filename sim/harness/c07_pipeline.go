package harness

import (
	"bytes"
	"context"
	"encoding/binary"
	"fmt"
	"sort"
	"syscall"
	"testing"
	"time"

	"github.com/google/gopacket"
	"github.com/v-byte-cpu/sx/pkg/packet"
	"github.com/v-byte-cpu/sx/pkg/scan"

	"verif/sim/simrt"
)

// C07 — packet pipeline (library level): real NewPacketSource + NewPacketMultiGenerator(N) +
// NewSender + NewReceiver + PacketEngine.Start (incl. mergeErrChan) between a simulated request
// generator / filler and a recording writer.

type c07Scenario struct {
	Requests    int    `json:"requests"`
	ReqErrAt    []int  `json:"request_error_positions"`
	BuildErrAt  []int  `json:"build_error_ids"`
	GenStartErr bool   `json:"generator_fails_to_start"`
	Workers     int    `json:"builder_workers"`
	ReqChanCap  int    `json:"request_chan_cap"`
	StallEvery  int    `json:"write_stall_every"`
	StallFor    string `json:"write_stall_for"`
	WriteErrAt  []int  `json:"write_error_on_write_no"`
	ReaderErrs  int    `json:"reader_unknown_errors"`
	ExitDelay   string `json:"consumer_exit_delay"`
	CancelStep  int    `json:"early_cancel_at_step,omitempty"` // the scan is cancelled while frames are still being built
}

type c07ReqGen struct {
	sc    *c07Scenario
	reqs  []*scan.Request
	start error
}

func (g *c07ReqGen) GenerateRequests(ctx context.Context, _ *scan.Range) (<-chan *scan.Request, error) {
	if g.start != nil {
		return nil, g.start
	}
	out := make(chan *scan.Request, g.sc.ReqChanCap)
	simrt.Go("c07.reqgen", func() {
		defer simrt.Close("c07.reqgen.close", out)
		for _, r := range g.reqs {
			if !simrt.SendCtx("c07.reqgen.send", ctx.Done(), out, r) {
				return
			}
		}
	})
	return out, nil
}

type c07Filler struct {
	fail map[int]bool
}

func c07Body(id int) []byte {
	n := 4 + (id*37)%120
	b := make([]byte, n)
	binary.BigEndian.PutUint32(b, uint32(id))
	for i := 4; i < n; i++ {
		b[i] = byte(id*131 + i*7)
	}
	return b
}

func (f *c07Filler) Fill(buf gopacket.SerializeBuffer, r *scan.Request) error {
	id := int(r.DstPort) | int(r.Meta["hi"].(int))<<16
	if f.fail[id] {
		return &idErr{"build", id}
	}
	body := c07Body(id)
	b, err := buf.AppendBytes(len(body))
	if err != nil {
		return err
	}
	copy(b, body)
	return nil
}

type c07Writer struct {
	run      *simrt.Run
	sc       *c07Scenario
	stallFor time.Duration
	failOn   map[int]bool
	nwrites  int
	frames   [][]byte
	retStep  []int
	altered  int
	inflight int
}

func (w *c07Writer) WritePacketData(pkt []byte) error {
	simrt.Pre("c07.write")
	w.nwrites++
	k := w.nwrites
	snap := append([]byte{}, pkt...)
	idx := len(w.frames)
	w.frames = append(w.frames, snap)
	w.retStep = append(w.retStep, 0)
	w.inflight++
	if w.sc.StallEvery > 0 && k%w.sc.StallEvery == 0 {
		simrt.Fault("nic-stall")
		simrt.Sleep("c07.write.stall", w.stallFor)
	}
	if !bytes.Equal(snap, pkt) {
		w.altered++
	}
	w.inflight--
	w.retStep[idx] = w.run.Step() + 1
	if w.failOn[k] {
		simrt.Fault("nic-error")
		// a failed write did not put the frame on the wire
		w.frames[idx] = nil
		return &idErr{"write", k}
	}
	return nil
}

type c07Reader struct {
	ctx  context.Context
	errs int
	n    int
}

func (r *c07Reader) ReadPacketData() ([]byte, *gopacket.CaptureInfo, error) {
	simrt.Pre("c07.read")
	if r.n < r.errs {
		r.n++
		simrt.Fault("rx-errno")
		return nil, &gopacket.CaptureInfo{}, &idErr{"read", r.n}
	}
	simrt.Recv("c07.read.block", r.ctx.Done())
	return nil, &gopacket.CaptureInfo{}, syscall.EBADF
}

type nopProc struct{}

func (nopProc) ProcessPacketData([]byte, *gopacket.CaptureInfo) error { return nil }

func pickPositions(p picker, label string, n, maxCount int) []int {
	if n == 0 || maxCount == 0 {
		return nil
	}
	cnt := p.n(label+".count", maxCount+1)
	set := map[int]bool{}
	for i := 0; i < cnt; i++ {
		set[p.n(label, n)] = true
	}
	var out []int
	for k := range set {
		out = append(out, k)
	}
	sort.Ints(out)
	return out
}

func runC07(t *testing.T, c simrt.Chooser, o Opts) *Out {
	p := picker{c}
	sc := &c07Scenario{}
	sc.Requests = p.n("nreq", 60)
	switch p.n("size", 5) {
	case 0:
		sc.Requests = p.n("nreq0", 4)
	case 1:
		sc.Requests = 100 + p.n("nreq2", 300) // beyond the 100-slot buffers
	}
	sc.Workers = p.pick("workers", 1, 1, 2, 3, 4, 8, 16, 64)
	sc.ReqChanCap = p.pick("reqcap", 0, 0, 1, 100)
	errBurst := p.pct("burst", 15)
	maxErr := 3
	if errBurst {
		maxErr = sc.Requests // more errors than the 100-slot error channels
	}
	// zero exit delay: the caller cancels the instant completion is signalled; the errors reported
	// until then (few enough to fit the error stream's buffer) must still all arrive
	zeroDelay := p.pct("zerodelay", 15)
	if zeroDelay && maxErr > 14 {
		maxErr = 14
	}
	sc.ReqErrAt = pickPositions(p, "reqerr", sc.Requests, maxErr)
	sc.BuildErrAt = pickPositions(p, "builderr", sc.Requests, maxErr)
	sc.GenStartErr = p.pct("starterr", 4)
	if p.pct("stall", 35) {
		sc.StallEvery = 1 + p.n("stallevery", 6)
		sc.StallFor = p.dur("stallfor", time.Microsecond, 10*time.Millisecond).String()
	}
	sc.WriteErrAt = pickPositions(p, "writeerr", sc.Requests+1, maxErr)
	sc.ReaderErrs = p.pick("readererrs", 0, 0, 1, 3, 120)
	delay := p.dur("delay", time.Millisecond, 300*time.Millisecond)
	if zeroDelay {
		sc.ReaderErrs, delay = 0, 0
	}
	if min := time.Duration(sc.ReaderErrs)*5*time.Millisecond + time.Millisecond; delay < min && !zeroDelay {
		delay = min // all injected read errors (5 ms back-off each) happen before the cancel
	}
	sc.ExitDelay = delay.String()
	if p.pct("earlycancel", 25) {
		sc.CancelStep = 1 + p.n("cancelstep", 12*sc.Requests+50)
	}
	out := &Out{Scenario: sc, Stats: map[string]int{}}

	reqErr := map[int]bool{}
	for _, i := range sc.ReqErrAt {
		reqErr[i] = true
	}
	buildErr := map[int]bool{}
	for _, i := range sc.BuildErrAt {
		buildErr[i] = true
	}
	wErr := map[int]bool{}
	for _, i := range sc.WriteErrAt {
		wErr[i+1] = true
	}
	var reqs []*scan.Request
	for i := 0; i < sc.Requests; i++ {
		r := &scan.Request{DstPort: uint16(i), Meta: map[string]interface{}{"hi": i >> 16}}
		if reqErr[i] {
			r.Err = &idErr{"request", i}
		}
		reqs = append(reqs, r)
	}
	gen := &c07ReqGen{sc: sc, reqs: reqs}
	if sc.GenStartErr {
		gen.start = &idErr{"generator", 0}
	}
	var wr *c07Writer
	var gotErrs []string
	doneObserved, errcClosed := false, false
	pendingAtDone := -1
	res := simrt.Execute(t, simrt.Config{Chooser: c, Trace: o.Trace, MaxSteps: 400000, SigintStep: sc.CancelStep}, nil, func(r *simrt.Run) {
		ctx, cancel := context.WithCancel(context.Background())
		r.RegisterSignal(cancel)
		wr = &c07Writer{run: r, sc: sc, stallFor: parseDur(sc.StallFor), failOn: wErr}
		rd := &c07Reader{ctx: ctx, errs: sc.ReaderErrs}
		src := scan.NewPacketSource(gen, scan.NewPacketMultiGenerator(&c07Filler{fail: buildErr}, sc.Workers))
		engine := scan.NewPacketEngine(src, packet.NewSender(wr), packet.NewReceiver(rd, nopProc{}))
		done, errc := engine.Start(ctx, &scan.Range{})
		drained := make(chan struct{})
		simrt.Go("c07.errdrain", func() {
			defer simrt.Close("c07.errdrain.close", drained)
			for {
				e, ok := simrt.Recv2("c07.errdrain.recv", errc)
				if !ok {
					errcClosed = true
					return
				}
				gotErrs = append(gotErrs, e.Error())
			}
		})
		simrt.Recv("c07.done", done)
		doneObserved = true
		pendingAtDone = wr.inflight
		if delay > 0 {
			simrt.Sleep("c07.exitdelay", delay)
		} else {
			simrt.Probe("zero-exit-delay")
		}
		simrt.Cancel("c07.cancel", cancel)
		simrt.Recv("c07.drained", drained)
		if sc.CancelStep > 0 {
			// let the stages that were cut off by the early cancel run to their end
			simrt.Sleep("c07.settle", time.Millisecond)
		}
	})
	out.Res = &res
	out.Stats["requests"] += sc.Requests
	out.Nontrivial = sc.Requests >= 2
	out.Key = fmt.Sprintf("%d/%d/%v/%v/%v/%016x", sc.Requests, sc.Workers, sc.ReqErrAt, sc.BuildErrAt, sc.WriteErrAt, res.Hash)
	sig := fmt.Sprintf("w%d", min(sc.Workers, 2))
	if len(res.Panics) > 0 {
		out.violate("C07.panic", firstLine(res.Panics[0].Value), "panic in %s: %s\n%s", res.Panics[0].G, res.Panics[0].Value, trimStack(res.Panics[0].Stack))
		return out
	}
	if res.End != simrt.EndDriverReturned || !doneObserved || !errcClosed {
		out.violate("C07.hang", res.End.String(), "pipeline did not complete: end=%v done=%v errc closed=%v; parked %v", res.End, doneObserved, errcClosed, firstN(res.Blocked, 12))
		return out
	}
	// reference: frames for error-free, build-successful requests, minus failed writes (a failed
	// write is the k-th WritePacketData call, whichever frame that was)
	wantFrames := map[string]int{}
	var wantErrs []string
	nOK := 0
	if sc.GenStartErr {
		wantErrs = append(wantErrs, gen.start.Error())
	} else {
		for i := range reqs {
			switch {
			case reqErr[i]:
				wantErrs = append(wantErrs, (&idErr{"request", i}).Error())
			case buildErr[i]:
				wantErrs = append(wantErrs, (&idErr{"build", i}).Error())
			default:
				wantFrames[string(c07Body(i))]++
				nOK++
			}
		}
	}
	for k := 1; k <= nOK; k++ {
		if wErr[k] {
			wantErrs = append(wantErrs, (&idErr{"write", k}).Error())
		}
	}
	for k := 1; k <= sc.ReaderErrs; k++ {
		wantErrs = append(wantErrs, (&idErr{"read", k}).Error())
	}
	// every build-successful request reaches WritePacketData exactly once, unaltered
	handed := map[string]int{}
	for _, f := range wr.frames {
		if f != nil {
			handed[string(f)]++
		}
	}
	// failed writes removed an arbitrary frame from "handed": compare counts per body allowing
	// exactly the failed ones to be missing
	missing, extra := 0, 0
	for b, n := range wantFrames {
		if handed[b] < n {
			missing += n - handed[b]
		}
	}
	for b, n := range handed {
		if n > wantFrames[b] {
			extra += n - wantFrames[b]
		}
	}
	nFailedWrites := 0
	for k := 1; k <= nOK; k++ {
		if wErr[k] {
			nFailedWrites++
		}
	}
	if res.SigFired {
		// cancelled while frames were being built: what did reach the writer until every stage had
		// ended is still a frame of this scan, at most once, unaltered; errors may be cut off
		simrtProbe(&res, "cancelled-while-building")
		if extra != 0 {
			out.violate("C07.frames", sig+"/cancelled", "after a cancel at step %d: %d frames handed to the writer are not frames of error-free requests or are duplicates (requests %d, workers %d)", res.SigStep, extra, sc.Requests, sc.Workers)
		}
		if wr.altered > 0 {
			out.violate("C07.altered", sig+"/cancelled", "%d frames changed while WritePacketData was still using them (buffer recycled too early)", wr.altered)
		}
		return out
	}
	if wr.nwrites != nOK {
		out.violate("C07.frames", sig+"/count", "%d frames handed to the writer, %d requests were error-free and built (requests %d, workers %d)", wr.nwrites, nOK, sc.Requests, sc.Workers)
	} else if missing != nFailedWrites || extra != 0 {
		out.violate("C07.frames", sig+"/bytes", "frames on the wire differ from the frames built: %d missing (expected %d failed writes), %d unknown/duplicated", missing, nFailedWrites, extra)
	}
	if wr.altered > 0 {
		out.violate("C07.altered", sig, "%d frames changed while WritePacketData was still using them (buffer recycled too early)", wr.altered)
	}
	sort.Strings(gotErrs)
	sort.Strings(wantErrs)
	if !eqStrs(gotErrs, wantErrs) {
		out.violate("C07.errors", sig, "error stream has %d values, expected %d (each failed request/build/write/read exactly once): got %v want %v", len(gotErrs), len(wantErrs), firstN(gotErrs, 8), firstN(wantErrs, 8))
	}
	if pendingAtDone != 0 {
		out.violate("C07.early-done", sig, "completion was signalled while %d write(s) had not returned", pendingAtDone)
	}
	if len(gotErrs) > 100 {
		simrtProbe(&res, "errors-over-100")
	}
	if sc.Requests > 100*sc.Workers {
		simrtProbe(&res, "requests-over-buffers")
	}
	return out
}

func init() {
	register(&Suite{Name: "C07-pipeline", Prop: "C07", Doc: "real packet source/multi-generator/sender/receiver/engine with simulated request generator, filler, writer (stalls, errors), reader", Run: runC07})
}
