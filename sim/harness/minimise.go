package harness

import (
	"testing"
	"time"

	"verif/sim/simrt"
)

// minimiseChoices is delta debugging on the choice list, in process: a candidate is kept when
// the same oracle fails with the same signature and the consumed (normalised) list is smaller.
// Order: scenario stream first (smaller workload, fewer faults), then world, then schedule.
func minimiseChoices(t *testing.T, s *Suite, rf *replayFile, maxTests int, budget time.Duration) (simrt.Choices, int, bool) {
	tests := 0
	start := time.Now()
	exhausted := func() bool { return tests >= maxTests || time.Since(start) > budget }
	run := func(c simrt.Choices) (simrt.Choices, bool) {
		tests++
		ch := simrt.NewReplayChooser(c)
		o := s.Run(t, ch, Opts{Tier: rf.Tier, Index: rf.Index})
		for _, v := range o.Violations {
			if v.Oracle == rf.Oracle && v.Sig == rf.Sig {
				return ch.Rec, true
			}
		}
		return ch.Rec, false
	}
	size := func(c simrt.Choices) (int, uint64) {
		n, sum := 0, uint64(0)
		for _, st := range c.Streams {
			n += len(st)
			for _, v := range st {
				sum += uint64(v)
			}
		}
		return n, sum
	}
	less := func(a, b simrt.Choices) bool {
		an, as := size(a)
		bn, bs := size(b)
		return an < bn || (an == bn && as < bs)
	}
	clone := func(c simrt.Choices) simrt.Choices {
		var d simrt.Choices
		for i := range c.Streams {
			d.Streams[i] = append([]uint64{}, c.Streams[i]...)
		}
		return d
	}
	cur, ok := run(rf.Choices)
	if !ok {
		return rf.Choices, tests, false
	}
	try := func(cand simrt.Choices) bool {
		if exhausted() {
			return false
		}
		got, ok := run(cand)
		if ok && less(got, cur) {
			cur = got
			return true
		}
		return false
	}
	order := []int{simrt.StreamScenario, simrt.StreamWorld, simrt.StreamSched}
	for improved := true; improved && !exhausted(); {
		improved = false
		for _, si := range order {
			// 1. truncate the tail (an exhausted stream yields 0 = simplest)
			for cut := len(cur.Streams[si]) / 2; cut >= 1 && !exhausted(); {
				if cut > len(cur.Streams[si]) {
					cut = len(cur.Streams[si])
					if cut == 0 {
						break
					}
				}
				cand := clone(cur)
				cand.Streams[si] = cand.Streams[si][:len(cand.Streams[si])-cut]
				if try(cand) {
					improved = true
				} else {
					cut /= 2
				}
			}
			// 2. zero blocks
			for blk := max(1, len(cur.Streams[si])/2); blk >= 1 && !exhausted(); blk /= 2 {
				for i := 0; i < len(cur.Streams[si]) && !exhausted(); i += blk {
					end := min(i+blk, len(cur.Streams[si]))
					nz := false
					for _, v := range cur.Streams[si][i:end] {
						if v != 0 {
							nz = true
						}
					}
					if !nz {
						continue
					}
					cand := clone(cur)
					for k := i; k < end; k++ {
						cand.Streams[si][k] = 0
					}
					if try(cand) {
						improved = true
					}
				}
				if blk == 1 {
					break
				}
			}
			// 3. delete blocks
			for blk := max(1, len(cur.Streams[si])/4); blk >= 1 && !exhausted(); blk /= 2 {
				for i := 0; i < len(cur.Streams[si]) && !exhausted(); {
					end := min(i+blk, len(cur.Streams[si]))
					cand := clone(cur)
					cand.Streams[si] = append(cand.Streams[si][:i], cand.Streams[si][end:]...)
					if try(cand) {
						improved = true
					} else {
						i += blk
					}
				}
				if blk == 1 {
					break
				}
			}
			// 4. lower single values
			for i := 0; i < len(cur.Streams[si]) && !exhausted(); i++ {
				v := cur.Streams[si][i]
				for _, nv := range []uint64{v / 2, v - 1} {
					if v == 0 || nv >= v {
						continue
					}
					cand := clone(cur)
					cand.Streams[si][i] = nv
					if try(cand) {
						improved = true
						break
					}
				}
			}
		}
	}
	return cur, tests, true
}
