package harness

import (
	"fmt"
	"testing"
	"time"

	"verif/sim/simrt"
)

// C07 (command level) — the same conservation oracles on full packet-scan commands with a
// stalling / failing NIC.

func runC07Cmd(t *testing.T, c simrt.Chooser, o Opts) *Out {
	p := picker{c}
	k := pktKnobs{
		gen:        genKnobs{maxProbes: 250, cmds: packetCmds, allowVPN: true, allowExcl: true, chunkedPct: 8, remotePct: 50},
		exitDelays: []string{"", "20ms"},
		flagIndex:  -1,
	}
	sc := buildPacketScenario(p, o, k)
	w := sc.World
	if p.pct("stall", 50) {
		w.NicStallEvery = 1 + p.n("stallevery", 5)
		w.NicStallFor = p.dur("stallfor", time.Microsecond, 5*time.Millisecond).String()
	}
	if p.pct("nicerr", 40) {
		w.NicErrEvery = 1 + p.n("errevery", 6)
	}
	if p.pct("cancel", 20) {
		// Ctrl-C while the generators are still producing: whatever reaches the wire until the
		// command returns is still a frame of this scan, unaltered and at most once
		w.SigintStep = 1 + p.n("sigstep", 25*sc.Spec.nprobes()+300)
	}
	out := &Out{Scenario: sc, Stats: map[string]int{}}
	cr := runPacketScenario(t, c, o, sc)
	cancelled := cr.Res.SigFired
	out.Res = &cr.Res
	out.Stats["frames"] += len(cr.Wire)
	out.Nontrivial = len(cr.Wire) >= 2
	out.Key = fmt.Sprintf("%v/%s/%d/%d/%d/%016x", sc.Spec.Cmd, sc.Spec.Mode, len(cr.Wire), w.NicStallEvery, w.NicErrEvery, cr.Res.Hash)
	if crashOrHang(out, "C07", cr) {
		return out
	}
	if cr.ExecErr != "" {
		out.violate("C07.exec-error", sc.Spec.Kind, "valid specification refused: %s", cr.ExecErr)
		return out
	}
	sig := "cmd/" + sc.Spec.Kind
	// every request of the specification was handed to the wire exactly once (failed writes
	// included: WritePacketData was called for them), unaltered
	got, bad := gotProbes(sc.Spec, cr)
	if len(bad) > 0 {
		out.violate("C07.frames", sig+"/undecodable", "%v", firstN(bad, 3))
	}
	missing, extra := diffMultiset(got, sc.Spec.expected())
	if cancelled {
		simrtProbe(&cr.Res, "cancelled-while-sending")
		missing = nil
	}
	if len(missing)+len(extra) > 0 {
		out.violate("C07.frames", sig, "argv %v: frames handed to the wire differ from the requests: missing %v extra %v", w.Argv, firstN(missing, 5), firstN(extra, 5))
	}
	nerr := 0
	for _, f := range cr.Wire {
		if f.Altered {
			out.violate("C07.altered", sig, "frame %d changed while the write was in progress", f.Idx)
			break
		}
		if f.Err != nil {
			nerr++
		}
	}
	if cancelled {
		// the tail of the error stream may be cut by the cancel; completion is C12's business
		if len(cr.Errs) > nerr {
			out.violate("C07.errors", sig+"/cancelled", "argv %v: %d writes failed, %d error records", w.Argv, nerr, len(cr.Errs))
		}
		return out
	}
	if len(cr.Errs) != nerr {
		out.violate("C07.errors", sig, "argv %v: %d writes failed, %d error records", w.Argv, nerr, len(cr.Errs))
	}
	if nerr > 100 {
		simrtProbe(&cr.Res, "errors-over-100")
	}
	// completion only after the last frame was handed over: the socket outlives the last write
	last := map[int]time.Duration{}
	for _, f := range cr.Wire {
		if f.RetT > last[f.Sock] {
			last[f.Sock] = f.RetT
		}
		if f.RetStep == 0 {
			out.violate("C07.early-done", sig, "write of frame %d had not returned when the command returned", f.Idx)
			break
		}
	}
	for _, s := range cr.Socks {
		if t, ok := last[s.ID]; ok && s.CloseT < t+sc.exitDelay {
			out.violate("C07.early-done", sig, "socket %d closed at %v although its last write returned at %v (exit delay %v)", s.ID, s.CloseT, t, sc.exitDelay)
		}
	}
	return out
}

func init() {
	register(&Suite{Name: "C07-cmd", Prop: "C07", Doc: "conservation oracles on full packet-scan commands with stalling / failing NIC", Run: runC07Cmd})
}
