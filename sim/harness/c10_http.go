package harness

import (
	"compress/gzip"
	"strconv"
	"bytes"
	"context"
	"crypto/ecdsa"
	"crypto/elliptic"
	"crypto/rand"
	"crypto/tls"
	"crypto/x509"
	"crypto/x509/pkix"
	"encoding/json"
	"fmt"
	"io"
	"math/big"
	"net"
	"reflect"
	"strings"
	"sync"
	"testing"
	"time"

	"github.com/v-byte-cpu/sx/pkg/scan"
	"github.com/v-byte-cpu/sx/pkg/scan/docker"
	"github.com/v-byte-cpu/sx/pkg/scan/elastic"

	"verif/sim/simnet"
	"verif/sim/simrt"
)

// C10 — Elasticsearch / Docker probes (library level): the real scanners (real net/http, real
// moby client, real crypto/tls) run against scripted HTTP(S) servers on the simulated TCP
// network with all deadlines on the virtual clock.

var (
	c10CertOnce sync.Once
	c10TLS      *tls.Config
)

func c10ServerTLS() *tls.Config {
	c10CertOnce.Do(func() {
		key, err := ecdsa.GenerateKey(elliptic.P256(), rand.Reader)
		if err != nil {
			panic(err)
		}
		tmpl := &x509.Certificate{SerialNumber: big.NewInt(1), Subject: pkix.Name{CommonName: "sim"}, NotBefore: time.Date(1990, 1, 1, 0, 0, 0, 0, time.UTC), NotAfter: time.Date(2200, 1, 1, 0, 0, 0, 0, time.UTC),
			KeyUsage: x509.KeyUsageDigitalSignature, ExtKeyUsage: []x509.ExtKeyUsage{x509.ExtKeyUsageServerAuth}}
		der, err := x509.CreateCertificate(rand.Reader, tmpl, tmpl, &key.PublicKey, key)
		if err != nil {
			panic(err)
		}
		c10TLS = &tls.Config{Certificates: []tls.Certificate{{Certificate: [][]byte{der}, PrivateKey: key}}}
	})
	return c10TLS
}

// c10Resp is the scripted behaviour for one request class (path).
type c10Resp struct {
	Class       string `json:"body_class"`
	Gzip        bool   `json:"gzip_if_offered,omitempty"`
	Verdict     string `json:"-"` // object | object+garbage | not-object
	Status      int    `json:"status"`
	Framing     string `json:"framing"` // length | chunked | close
	BodyLen     int    `json:"body_len"`
	HeaderDelay string `json:"header_delay"`
	Pieces      int    `json:"pieces"`
	PieceDelay  string `json:"piece_delay"`
	Stall       string `json:"stall,omitempty"` // before-headers | mid-headers | after-headers | mid-body
	Endless     bool   `json:"endless,omitempty"`
	Fault       string `json:"fault,omitempty"` // close-on-accept | reset-on-accept | close-after-request | reset-after-headers
	Location    string `json:"location,omitempty"`
	APIVersion  string `json:"api_version_header,omitempty"`
	KeepAlive   bool   `json:"keep_alive,omitempty"` // HTTP/1.1 persistent connection: the server does not close after the response
	body        []byte
	hdrDelay    time.Duration
	pieceDelay  time.Duration
}

type c10Req struct {
	Method, Path string
	T            time.Duration // request head received
	DoneT        time.Duration // last byte of the scripted body written (0 = never)
	Resp         *c10Resp
	Conn         int
}

type c10Server struct {
	run   *simrt.Run
	tls   bool
	route func(method, path string) *c10Resp
	mu    sync.Mutex
	reqs  []*c10Req
	accepts int
}

func (s *c10Server) add(r *c10Req) {
	s.mu.Lock()
	s.reqs = append(s.reqs, r)
	s.mu.Unlock()
}

func statusText(c int) string {
	return map[int]string{200: "OK", 201: "Created", 204: "No Content", 301: "Moved Permanently", 302: "Found", 307: "Temporary Redirect", 400: "Bad Request", 401: "Unauthorized", 403: "Forbidden", 404: "Not Found", 500: "Internal Server Error", 503: "Service Unavailable"}[c]
}

func (s *c10Server) handle(raw *simnet.TCPConn, rec *simnet.ConnRec) {
	s.mu.Lock()
	s.accepts++
	s.mu.Unlock()
	var conn net.Conn = raw
	defer func() { conn.Close() }()
	// connection-level faults are decided by the response of the root path (they happen before
	// any request is known)
	pre := s.route("", "")
	if pre != nil {
		switch pre.Fault {
		case "close-on-accept":
			simrt.Fault("http-close-on-accept")
			return
		case "reset-on-accept":
			simrt.Fault("http-reset-on-accept")
			raw.Reset()
			return
		case "plain-garbage":
			simrt.Fault("http-garbage-reply")
			raw.Write([]byte("SSH-2.0-OpenSSH_8.9\r\n\x00\x01\x02 not http at all\r\n\r\n"))
			io.Copy(io.Discard, raw)
			return
		}
	}
	if s.tls {
		tc := tls.Server(raw, c10ServerTLS())
		if err := tc.Handshake(); err != nil {
			rec.Note("tls handshake failed: " + err.Error())
			return
		}
		conn = tc
	}
	for s.serveOne(raw, conn, rec) {
	}
}

// serveOne handles one request on the connection; it returns true when the connection is kept
// alive for a further request (the response was complete and announced no close).
func (s *c10Server) serveOne(raw *simnet.TCPConn, conn net.Conn, rec *simnet.ConnRec) bool {
	// read the request head
	var head []byte
	buf := make([]byte, 1)
	for !bytes.HasSuffix(head, []byte("\r\n\r\n")) && len(head) < 16384 {
		n, err := conn.Read(buf)
		if n > 0 {
			head = append(head, buf[:n]...)
		}
		if err != nil {
			rec.Note("request read: " + err.Error())
			return false
		}
	}
	line := strings.SplitN(string(head), "\r\n", 2)[0]
	parts := strings.Fields(line)
	if len(parts) < 2 {
		return false
	}
	rq := &c10Req{Method: parts[0], Path: parts[1], T: s.run.Now(), Conn: rec.ID}
	rs := s.route(rq.Method, rq.Path)
	rq.Resp = rs
	s.add(rq)
	block := func() { io.Copy(io.Discard, conn) }
	if rs == nil {
		conn.Write([]byte("HTTP/1.1 404 Not Found\r\nContent-Length: 0\r\nConnection: close\r\n\r\n"))
		return false
	}
	if rs.Fault == "close-after-request" {
		simrt.Fault("http-close-after-request")
		return false
	}
	if rs.hdrDelay > 0 {
		time.Sleep(rs.hdrDelay)
	}
	if rs.Stall == "before-headers" {
		simrt.Fault("http-stall-before-headers")
		block()
		return false
	}
	// an endpoint that honours Accept-Encoding (Elasticsearch does by default): the body goes out
	// gzip-compressed when, and only when, the request offered that
	body := rs.body
	gz := rs.Gzip && len(body) > 0 && strings.Contains(strings.ToLower(string(head)), "accept-encoding: gzip")
	if gz {
		var zb bytes.Buffer
		zw := gzip.NewWriter(&zb)
		zw.Write(body)
		zw.Close()
		body = zb.Bytes()
		simrt.Fault("http-gzip-body")
	}
	var hb bytes.Buffer
	fmt.Fprintf(&hb, "HTTP/1.1 %d %s\r\nContent-Type: application/json\r\n", rs.Status, statusText(rs.Status))
	if gz {
		hb.WriteString("Content-Encoding: gzip\r\n")
	}
	switch rs.Framing {
	case "length":
		fmt.Fprintf(&hb, "Content-Length: %d\r\n", len(body))
	case "chunked":
		hb.WriteString("Transfer-Encoding: chunked\r\n")
	}
	if rs.Location != "" {
		fmt.Fprintf(&hb, "Location: %s\r\n", rs.Location)
	}
	if rs.APIVersion != "" {
		fmt.Fprintf(&hb, "API-Version: %s\r\nOSType: linux\r\n", rs.APIVersion)
	}
	keep := rs.KeepAlive && rs.Framing != "close"
	if !keep {
		hb.WriteString("Connection: close\r\n")
	}
	hb.WriteString("\r\n")
	if rs.Stall == "mid-headers" {
		simrt.Fault("http-stall-mid-headers")
		conn.Write(hb.Bytes()[:hb.Len()/2])
		block()
		return false
	}
	if _, err := conn.Write(hb.Bytes()); err != nil {
		return false
	}
	if rs.Fault == "reset-after-headers" {
		simrt.Fault("http-reset-after-headers")
		raw.Reset()
		return false
	}
	if rq.Method == "HEAD" {
		rq.DoneT = s.run.Now()
		return keep
	}
	if rs.Stall == "after-headers" {
		simrt.Fault("http-stall-after-headers")
		block()
		return false
	}
	writeBody := func(b []byte) error {
		if len(b) == 0 {
			return nil
		}
		if rs.Framing == "chunked" {
			if _, err := fmt.Fprintf(conn, "%x\r\n", len(b)); err != nil {
				return err
			}
			if _, err := conn.Write(b); err != nil {
				return err
			}
			_, err := conn.Write([]byte("\r\n"))
			return err
		}
		_, err := conn.Write(b)
		return err
	}
	n := max(1, rs.Pieces)
	for i := 0; i < n; i++ {
		if i > 0 && rs.pieceDelay > 0 {
			time.Sleep(rs.pieceDelay)
		}
		if rs.Fault == "cut-mid-body" && i == (n+1)/2 {
			// the connection dies part-way through the body (fewer bytes than Content-Length announced)
			simrt.Fault("http-cut-mid-body")
			return false
		}
		if rs.Stall == "mid-body" && i == (n+1)/2 {
			simrt.Fault("http-stall-mid-body")
			block()
			return false
		}
		lo, hi := len(body)*i/n, len(body)*(i+1)/n
		if err := writeBody(body[lo:hi]); err != nil {
			return false
		}
	}
	if rs.Stall == "mid-body" && n == 1 {
		// single piece: everything but the last byte was... (the whole body went out); stall before the end marker
		simrt.Fault("http-stall-mid-body")
		block()
		return false
	}
	rq.DoneT = s.run.Now()
	if rs.Endless {
		simrt.Fault("http-endless-body")
		filler := []byte(strings.Repeat(" ", 512))
		for {
			time.Sleep(7 * time.Millisecond)
			if err := writeBody(filler); err != nil {
				return false
			}
		}
	}
	if rs.Framing == "chunked" {
		conn.Write([]byte("0\r\n\r\n"))
	}
	return keep
}

// ---- response generators --------------------------------------------------------------------

func c10Object(p picker, label string, kind string) []byte {
	var m map[string]interface{}
	if kind == "docker" {
		m = map[string]interface{}{"ID": fmt.Sprintf("ID-%d", p.n(label+".id", 1<<20)), "Name": "dockerhost-" + fmt.Sprint(p.n(label+".node", 1000)), "Containers": p.n(label+".cont", 100),
			"OperatingSystem": "Sim \"OS\" 1.0", "KernelVersion": "5.10", "Architecture": "x86_64", "Version": "20.10.7", "ApiVersion": "1.41", "UnknownField": map[string]interface{}{"a": []int{1, 2}}}
	} else {
		m = map[string]interface{}{"name": "node-" + fmt.Sprint(p.n(label+".node", 1000)), "cluster_name": "sim", "tagline": "You Know, for Search",
			"version": map[string]interface{}{"number": "7.10.2", "lucene_version": "8.7.0"}, "idx-" + fmt.Sprint(p.n(label+".id", 1<<20)): map[string]interface{}{"aliases": map[string]interface{}{}}}
	}
	if p.pct(label+".big", 8) {
		m["padding"] = strings.Repeat("x", 1<<20) // 1 MiB
	}
	b, _ := json.Marshal(m)
	return b
}

func c10Body(p picker, label string, kind string) (class, verdict string, body []byte) {
	obj := c10Object(p, label, kind)
	switch p.n(label+".class", 20) {
	case 0, 1, 2, 3, 4, 5, 6:
		return "object", "object", obj
	case 7:
		return "object-with-whitespace", "object", []byte("  \r\n\t" + string(obj) + "\n\n")
	case 8:
		return "empty-object", "object", []byte("{}")
	case 9:
		return "object+garbage", "object+garbage", append(append([]byte{}, obj...), []byte(" trailing garbage <html>")...)
	case 10:
		return "null", "not-object", []byte("null")
	case 11:
		return "array", "not-object", []byte(`[{"name":"x"},1,2]`)
	case 12:
		return "string", "not-object", []byte(`"just a string"`)
	case 13:
		return "number", "not-object", []byte(`42`)
	case 14:
		return "true", "not-object", []byte(`true`)
	case 15:
		return "empty", "not-object", nil
	case 16:
		return "html", "not-object", []byte("<html><body>It works!</body></html>")
	case 17:
		return "truncated-object", "not-object", obj[:len(obj)/2]
	case 18:
		return "binary", "not-object", []byte{0x00, 0xff, 0x7b, 0x22, 0x80, 0x81}
	default:
		return "null-padded", "not-object", []byte("  null  ")
	}
}

func c10GenResp(p picker, label string, kind string, timeout time.Duration, faultPct int) *c10Resp {
	r := &c10Resp{}
	r.Class, r.Verdict, r.body = c10Body(p, label, kind)
	r.BodyLen = len(r.body)
	r.Status = p.pick(label+".status", 200, 200, 200, 200, 201, 401, 403, 404, 500, 503)
	r.Framing = []string{"length", "chunked", "close"}[p.n(label+".framing", 3)]
	r.Pieces = p.pick(label+".pieces", 1, 1, 2, 3, 7)
	r.KeepAlive = p.bool(label + ".keepalive")
	r.Gzip = kind == "elastic" && p.pct(label+".gzip", 30)
	// delays: odd nanoseconds so that nothing coincides with a (round) timeout
	odd := func(lbl string, hi time.Duration) time.Duration {
		return time.Duration(p.n(lbl, int(hi/2)))*2 + 1
	}
	switch p.n(label+".timing", 10) {
	case 0, 1, 2, 3, 4, 5:
		r.hdrDelay = odd(label+".hd", timeout/10)
		r.pieceDelay = odd(label+".pd", timeout/40)
	case 6, 7: // around the timeout
		r.hdrDelay = odd(label+".hd2", 2*timeout)
		r.pieceDelay = odd(label+".pd2", timeout/8)
	case 8:
		r.hdrDelay = 1
		r.pieceDelay = odd(label+".pd3", timeout/2)
	default:
		r.hdrDelay, r.pieceDelay = 1, 1
	}
	r.HeaderDelay, r.PieceDelay = r.hdrDelay.String(), r.pieceDelay.String()
	if p.pct(label+".fault", faultPct) {
		switch p.n(label+".faultkind", 9) {
		case 0:
			r.Stall = "before-headers"
		case 1:
			r.Stall = "mid-headers"
		case 2:
			r.Stall = "after-headers"
		case 3:
			r.Stall = "mid-body"
		case 4:
			r.Endless = true
			if r.Framing == "length" {
				r.Framing = "chunked"
			}
		case 5:
			r.Fault = "close-after-request"
		case 6:
			r.Fault = "reset-after-headers"
		case 7:
			r.Status = 204
		default:
			r.Status = p.pick(label+".redir", 301, 302, 307)
			r.Location = "http://203.0.113.77:9200/"
			if r.Status == 302 {
				// a host whose address extends the probed address textually (no extra draw)
				r.Location = "http://" + c10Target + "0:9200/elastic/"
			}
		}
	}
	return r
}

// completes: the scripted response delivers its whole body (and the body may exist).
func (r *c10Resp) completes() bool {
	return r.Stall == "" && r.Fault == "" && r.Status != 204
}

type c10Scenario struct {
	Kind     string              `json:"kind"` // elastic | docker
	Scheme   string              `json:"scheme"`
	Server   string              `json:"server_speaks"`
	Connect  string              `json:"connect"` // accept | refuse | blackhole
	ConnTime string              `json:"connect_time"`
	Timeout  string              `json:"timeout"`
	ConnFault string             `json:"connection_fault,omitempty"`
	Resp     map[string]*c10Resp `json:"responses"`
	Previous string              `json:"previous_probe_of_the_same_scanner,omitempty"` // cut-body | object
}

const c10Target = "198.51.100.23"
const c10PrevAddr = "203.0.113.50:9200"

func runC10(t *testing.T, c simrt.Chooser, o Opts) *Out {
	p := picker{c}
	c10ServerTLS() // created outside the bubble
	sc := &c10Scenario{Resp: map[string]*c10Resp{}}
	sc.Kind = []string{"elastic", "docker"}[p.n("kind", 2)]
	sc.Scheme = []string{"http", "http", "https"}[p.n("scheme", 3)]
	sc.Server = sc.Scheme
	if p.pct("mismatch", 6) {
		sc.Server = map[string]string{"http": "https", "https": "http"}[sc.Scheme]
	}
	timeout := []time.Duration{50 * time.Millisecond, time.Second, 5 * time.Second, 20 * time.Second, 60 * time.Second}[p.n("timeout", 5)]
	sc.Timeout = timeout.String()
	port := p.pick("port", 9200, 2375, 2376, 443, 80, 65535)
	sc.Connect = []string{"accept", "accept", "accept", "accept", "accept", "accept", "refuse", "blackhole"}[p.n("connect", 8)]
	connTime := time.Duration(p.n("conntime", 2000))*2*time.Microsecond + 1
	if p.pct("slowconnect", 8) {
		connTime = time.Duration(p.n("conntime2", int(2*timeout/2)))*2 + 1
	}
	sc.ConnTime = connTime.String()
	if sc.Scheme == "http" && p.pct("previous", 25) {
		sc.Previous = []string{"cut-body", "object"}[p.n("prevkind", 2)]
	}
	primary, secondary := "/", "/_aliases"
	if sc.Kind == "docker" {
		primary, secondary = "info", "version"
		pr := &c10Resp{Status: p.pick("pingstatus", 200, 200, 200, 404, 500), Framing: "length", body: []byte("OK"), Class: "ping", APIVersion: []string{"1.41", "1.40", "1.24", "1.12", "9.99", "garbage", ""}[p.n("apiver", 7)], hdrDelay: 1, Pieces: 1}
		if p.pct("pingslow", 10) {
			pr.hdrDelay = time.Duration(p.n("pingdelay", int(timeout)))*2 + 1
		}
		if p.pct("pingstall", 5) {
			pr.Stall = "before-headers"
		}
		pr.HeaderDelay = pr.hdrDelay.String()
		sc.Resp["_ping"] = pr
	}
	sc.Resp[primary] = c10GenResp(p, "primary", sc.Kind, timeout, 30)
	sc.Resp[secondary] = c10GenResp(p, "secondary", sc.Kind, timeout, 40)
	if p.pct("connfault", 8) {
		sc.ConnFault = []string{"close-on-accept", "reset-on-accept", "plain-garbage"}[p.n("connfaultkind", 3)]
	}
	out := &Out{Scenario: sc, Stats: map[string]int{"kind:" + sc.Kind: 1, "scheme:" + sc.Scheme: 1}}
	srv := &c10Server{tls: sc.Server == "https"}
	srv.route = func(method, path string) *c10Resp {
		if method == "" {
			if sc.ConnFault != "" {
				return &c10Resp{Fault: sc.ConnFault}
			}
			return nil
		}
		switch {
		case strings.HasSuffix(path, "/_ping"):
			return sc.Resp["_ping"]
		case strings.HasSuffix(path, "/info"):
			return sc.Resp["info"]
		case strings.HasSuffix(path, "/version"):
			return sc.Resp["version"]
		case path == "/_aliases":
			return sc.Resp["/_aliases"]
		case path == "/":
			return sc.Resp["/"]
		}
		return nil
	}
	addr := fmt.Sprintf("%s:%d", c10Target, port)
	var result scan.Result
	var scanErr error
	var t0, t1 time.Duration
	returned := false
	var tcpn *simnet.Net
	res := simrt.Execute(t, simrt.Config{Chooser: c, Trace: o.Trace, MaxSteps: 100_000, MaxVirt: 6*timeout + time.Minute, Sentinel: time.Hour}, func(r *simrt.Run) {
		srv.run = r
		tcpn = simnet.Install(r)
		mode := map[string]int{"accept": simnet.Accept, "refuse": simnet.Refuse, "blackhole": simnet.Blackhole}[sc.Connect]
		tcpn.Lookup = func(a string) *simnet.Server {
			if a == c10PrevAddr && sc.Previous != "" {
				prev := &c10Server{run: r, route: func(m, pth string) *c10Resp {
					if m == "" {
						return nil
					}
					ghost := []byte(fmt.Sprintf(`{"name":"ghost","cluster_name":"ghost","Name":"ghost","ID":"GHOST","tagline":%q}`, strings.Repeat("g", 400)))
					if sc.Previous == "cut-body" {
						return &c10Resp{Status: 200, Framing: "length", body: ghost, Pieces: 2, hdrDelay: 1, pieceDelay: 1, Fault: "cut-mid-body"}
					}
					return &c10Resp{Status: 200, Framing: "length", body: ghost, Pieces: 1, hdrDelay: 1}
				}}
				return &simnet.Server{Mode: simnet.Accept, ConnectTime: time.Microsecond, Handler: prev.handle}
			}
			if a != addr {
				// a third party (redirect target): a perfectly good JSON service
				third := &c10Server{run: r, route: func(m, pth string) *c10Resp {
					if m == "" {
						return nil
					}
					return &c10Resp{Status: 200, Framing: "length", body: []byte(`{"name":"third-party","cluster_name":"not-the-target","ID":"THIRD"}`), Pieces: 1, hdrDelay: 1}
				}}
				return &simnet.Server{Mode: simnet.Accept, ConnectTime: time.Microsecond, Handler: third.handle}
			}
			return &simnet.Server{Mode: mode, ConnectTime: connTime, Handler: srv.handle}
		}
	}, func(r *simrt.Run) {
		req := &scan.Request{DstIP: net.ParseIP(c10Target).To4(), DstPort: uint16(port)}
		var scanner scan.Scanner
		if sc.Kind == "elastic" {
			scanner = elastic.NewScanner(sc.Scheme, elastic.WithDataTimeout(timeout))
		} else {
			scanner = docker.NewScanner(sc.Scheme, docker.WithDataTimeout(timeout))
		}
		if sc.Previous != "" {
			// the scanner has already probed another endpoint (whose answer was cut short, or which
			// served an object of its own): nothing of that may show in this probe
			pa := strings.Split(c10PrevAddr, ":")
			pp, _ := strconv.Atoi(pa[1])
			scanner.Scan(context.Background(), &scan.Request{DstIP: net.ParseIP(pa[0]).To4(), DstPort: uint16(pp)})
			simrt.Sleep("c10.between", time.Millisecond)
		}
		t0 = r.Now()
		result, scanErr = scanner.Scan(context.Background(), req)
		t1 = r.Now()
		returned = true
	})
	out.Res = &res
	out.Nontrivial = true
	prim := sc.Resp[primary]
	out.Key = fmt.Sprintf("%s/%s/%s/%s/%s/%d/%s/%s/%s/%s/%016x", sc.Kind, sc.Scheme, sc.Server, sc.Connect, sc.Timeout, prim.Status, prim.Class, prim.Stall, prim.Fault, sc.Resp[secondary].Class, res.Hash)
	sig := sc.Kind
	if len(res.Panics) > 0 {
		out.violate("C10.panic", sig+"/"+firstLine(res.Panics[0].Value), "panic in %s: %s\n%s", res.Panics[0].G, res.Panics[0].Value, trimStack(res.Panics[0].Stack))
		return out
	}
	if !returned || res.End != simrt.EndDriverReturned {
		out.violate("C10.hang", sig+"/"+res.End.String(), "the probe did not return: %v at virtual %v (configured timeout %v per request); responses %s=%+v %s=%+v", res.End, res.Virt, timeout, primary, *sc.Resp[primary], secondary, *sc.Resp[secondary])
		return out
	}
	elapsed := t1 - t0
	// requests the server saw
	var primReq, secReq *c10Req
	for _, rq := range srv.reqs {
		rs := rq.Resp
		switch {
		case rs == prim && rq.Method == "GET" && primReq == nil:
			primReq = rq
		case rs == sc.Resp[secondary] && rq.Method == "GET" && secReq == nil:
			secReq = rq
		}
	}
	// 1. time bound
	nreq := time.Duration(2)
	bound := nreq*timeout + 2*connTime + time.Millisecond
	if sc.Kind == "docker" {
		bound = timeout + time.Millisecond
	}
	if elapsed > bound {
		out.violate("C10.time-bound", sig, "%s probe of %s://%s took %v, configured timeout %v per request (bound %v); primary %+v; secondary %+v", sc.Kind, sc.Scheme, addr, elapsed, timeout, bound, *prim, *sc.Resp[secondary])
	}
	// 2. nothing but the target was contacted
	dials, _ := tcpn.Snapshot()
	for _, d := range dials {
		if d.T < t0 {
			continue // the previous probe of the same scanner
		}
		if d.Addr != addr {
			out.violate("C10.foreign-dial", sig+"/redirect", "%s probe of %s contacted %s (redirect Location %q followed): the record would describe another host", sc.Kind, addr, d.Addr, prim.Location)
			break
		}
	}
	// 3. reported iff the primary request was answered with a JSON object in time
	served := sc.Connect == "accept" && sc.ConnFault == "" && sc.Server == sc.Scheme && primReq != nil && primReq.DoneT > 0 && prim.completes()
	inTime := served && primReq.DoneT-t0 < timeout-time.Microsecond
	// The probe must actually ask: when the endpoint is ready to serve the primary request completely
	// well inside the timeout (by its script: connect time + header delay + piece delays) and the
	// request never arrives or is not answered in time, the probe wasted its budget elsewhere.
	// (elastic only: the docker probe shares one budget between its requests)
	if !inTime && sc.Kind == "elastic" && sc.Connect == "accept" && sc.ConnFault == "" && sc.Server == sc.Scheme && prim.completes() {
		scripted := connTime + prim.hdrDelay + time.Duration(max(1, prim.Pieces)-1)*prim.pieceDelay
		if scripted < timeout/2 && scripted < timeout-5*time.Millisecond {
			served, inTime = true, true
		}
	}
	// docker: the version negotiation (/_ping, HEAD then possibly GET, each on its own connection) is
	// an auxiliary request like the secondary one - whatever it is answered with, /info has to be
	// asked when the budget allows it by the endpoint's script
	if !inTime && sc.Kind == "docker" && primReq == nil && sc.Connect == "accept" && sc.ConnFault == "" && sc.Server == sc.Scheme && prim.completes() {
		if ping := sc.Resp["_ping"]; ping != nil && ping.Stall == "" && ping.Fault == "" {
			scripted := 3*connTime + 2*ping.hdrDelay + prim.hdrDelay + time.Duration(max(1, prim.Pieces)-1)*prim.pieceDelay
			if sc.Scheme == "https" {
				scripted *= 2 // handshakes
			}
			if scripted < timeout/2 && scripted < timeout-5*time.Millisecond {
				served, inTime = true, true
				simrtProbe(&res, "docker-must-by-script")
			}
		}
	}
	okStatus := sc.Kind == "elastic" || (prim.Status >= 200 && prim.Status < 300)
	// a redirect answer that itself carries a JSON object: whether that counts as "answered with a
	// JSON object" (elastic) / "succeeded" (docker: the client library treats 3xx as success) is left open
	redirect := prim.Location != ""
	if redirect && sc.Kind == "docker" {
		okStatus = true
	}
	must := inTime && prim.Verdict == "object" && okStatus && !prim.Endless && !redirect
	may := must || (served && primReq != nil && primReq.DoneT-t0 < timeout+time.Microsecond && (prim.Verdict == "object" || prim.Verdict == "object+garbage") && okStatus)
	// a response that is cut after a complete object (stall / reset / endless after the object) may be reported as well
	if !may && sc.Connect == "accept" && sc.ConnFault == "" && sc.Server == sc.Scheme && okStatus && prim.Status != 204 && prim.Fault != "close-after-request" &&
		(prim.Verdict == "object" || prim.Verdict == "object+garbage") && (prim.Stall == "" || prim.Stall == "mid-body") {
		may = true
	}
	reported := result != nil
	cls := fmt.Sprintf("%s/status%d/%s", sig, prim.Status/100*100, prim.Class)
	if sc.Kind == "docker" && strings.HasPrefix(prim.Class, "null") {
		cls = "docker/null-body" // one defect, whatever the (successful) status
	}
	switch {
	case reported && !may:
		out.violate("C10.phantom", cls, "%s probe of %s://%s reported the endpoint although %s was not answered with a JSON object in time: connect=%s server=%s connfault=%q primary=%+v served-at=%v timeout=%v; record %s",
			sc.Kind, sc.Scheme, addr, primary, sc.Connect, sc.Server, sc.ConnFault, *prim, c10Done(primReq, t0), timeout, c10Rec(result))
	case !reported && must:
		out.violate("C10.missed", cls, "%s probe of %s://%s did not report the endpoint although %s was answered with a JSON object after %v (timeout %v): error %v; primary=%+v secondary=%+v",
			sc.Kind, sc.Scheme, addr, primary, c10Done(primReq, t0), timeout, scanErr, *prim, *sc.Resp[secondary])
	}
	if reported && scanErr != nil {
		out.violate("C10.result-and-error", sig, "both a record and an error: %v", scanErr)
	}
	if must {
		simrtProbe(&res, "reported")
		if sr := sc.Resp[secondary]; !sr.completes() || sr.Verdict != "object" {
			simrtProbe(&res, "reported-despite-failing-secondary")
		}
	}
	// 4. the record describes the probed target and carries the served object
	if reported {
		b, err := result.MarshalJSON()
		var m map[string]interface{}
		if err != nil || json.Unmarshal(b, &m) != nil {
			out.violate("C10.record", sig+"/unmarshalable", "record cannot be marshalled: %v", err)
			return out
		}
		wantHost := addr
		if sc.Kind == "docker" {
			wantHost = "tcp://" + addr
		}
		if m["host"] != wantHost || m["proto"] != sc.Scheme || m["scan"] != sc.Kind {
			out.violate("C10.record", sig+"/target", "record says scan=%v proto=%v host=%v, probed %s %s %s", m["scan"], m["proto"], m["host"], sc.Kind, sc.Scheme, wantHost)
		}
		if prim.Verdict == "object" && must {
			var want map[string]interface{}
			json.Unmarshal(prim.body, &want)
			info, _ := m["info"].(map[string]interface{})
			if sc.Kind == "elastic" {
				if !reflect.DeepEqual(info, want) {
					out.violate("C10.record", sig+"/info", "info of the record differs from the object served on /: %s vs %s", clip(fmt.Sprint(info)), clip(fmt.Sprint(want)))
				}
				sr := sc.Resp[secondary]
				idx := m["indexes"]
				var wantIdx map[string]interface{}
				json.Unmarshal(sr.body, &wantIdx)
				secOK := secReq != nil && secReq.DoneT > 0 && sr.completes() && sr.Verdict == "object" && !sr.Endless && secReq.DoneT-secReq.T < timeout-time.Millisecond
				if secOK && !reflect.DeepEqual(idx, map[string]interface{}(wantIdx)) {
					out.violate("C10.record", sig+"/indexes", "indexes of the record differ from the object served on /_aliases: %s", clip(fmt.Sprint(idx)))
				}
				if idx != nil && sr.Verdict == "not-object" {
					out.violate("C10.record", sig+"/indexes-phantom", "indexes %s although /_aliases did not serve an object (%s)", clip(fmt.Sprint(idx)), sr.Class)
				}
			} else if fmt.Sprint(info["ID"]) != fmt.Sprint(c10Str(want["ID"])) || fmt.Sprint(info["Name"]) != fmt.Sprint(c10Str(want["Name"])) {
				out.violate("C10.record", sig+"/info", "info.ID/Name of the record are %v/%v, served %v/%v", info["ID"], info["Name"], want["ID"], want["Name"])
			}
		}
	}
	return out
}

func c10Str(v interface{}) interface{} {
	if v == nil {
		return ""
	}
	return v
}

func c10Done(rq *c10Req, t0 time.Duration) string {
	if rq == nil {
		return "never requested"
	}
	if rq.DoneT == 0 {
		return "never completed"
	}
	return (rq.DoneT - t0).String()
}

func c10Rec(r scan.Result) string {
	b, err := r.MarshalJSON()
	if err != nil {
		return err.Error()
	}
	return clip(string(b))
}

func init() {
	register(&Suite{Name: "C10-httpprobe", Prop: "C10", Doc: "real elastic / docker scanners (net/http, moby client, crypto/tls) against scripted HTTP(S) servers on simulated TCP: body classes, statuses, framings, stalls, endless bodies, redirects, scheme mismatch", Run: runC10})
}
