package harness

import (
	"fmt"
	"sort"
	"testing"
	"time"

	"verif/sim/simrt"
)

// C15 — probes never leave faster than the configured rate; each probe is charged once;
// receiving is not slowed down.

type c15Scenario struct {
	Pkt     *pktScenario    `json:"packet,omitempty"`
	App     *c16AppScenario `json:"app,omitempty"`
	Rate    string          `json:"rate"`
	Count   int             `json:"count"`
	Window  string          `json:"window"`
	Stalls  bool            `json:"stalls"`
}

// limiter documented default: go.uber.org/ratelimit allows a slack of 10 intervals.
const limiterSlack = 10

func genRate(p picker) (arg string, n int, w time.Duration) {
	n = 1 + p.n("ratecount", 50)
	switch p.n("ratebig", 4) {
	case 0:
		n = 1 + p.n("ratecount2", 5000)
	case 1:
		n = 1 + p.n("ratecount3", 5)
	}
	type win struct {
		s string
		d time.Duration
	}
	wins := []win{{"", time.Second}, {"/s", time.Second}, {"/1s", time.Second}, {"/ms", time.Millisecond}, {"/5ms", 5 * time.Millisecond}, {"/100ms", 100 * time.Millisecond},
		{"/7s", 7 * time.Second}, {"/10s", 10 * time.Second}, {"/m", time.Minute}, {"/1m30s", 90 * time.Second}, {"/250us", 250 * time.Microsecond}, {"/1.5s", 1500 * time.Millisecond}}
	x := wins[p.n("ratewin", len(wins))]
	return fmt.Sprintf("%d%s", n, x.s), n, x.d
}

// checkSpacing verifies the lower (and optionally upper) spacing bound over every window of
// consecutive departure times.
func checkSpacing(ts []time.Duration, n int, w time.Duration, upper bool) string {
	per := w / time.Duration(n)
	sort.Slice(ts, func(i, j int) bool { return ts[i] < ts[j] })
	for i := 0; i < len(ts); i++ {
		for j := i + 1; j < len(ts); j++ {
			k := j - i + 1
			span := ts[j] - ts[i]
			need := time.Duration(k-1-limiterSlack)*per - time.Duration(k-1) // 1 ns per interval: Duration granularity
			if need > 0 && span < need {
				return fmt.Sprintf("%d consecutive probes left within %v (from %v), the limit %d per %v requires at least %v", k, span, ts[i], n, w, need)
			}
			if upper {
				most := time.Duration(k-1)*per + time.Duration(k)
				if span > most {
					return fmt.Sprintf("%d consecutive probes took %v (from %v) although nothing else slowed them; %d per %v allows at most %v: a probe is charged more than once", k, span, ts[i], n, w, most)
				}
			}
		}
	}
	return ""
}

func runC15(t *testing.T, c simrt.Chooser, o Opts) *Out {
	p := picker{c}
	out := &Out{Stats: map[string]int{}}
	rateArg, n, w := genRate(p)
	sc := &c15Scenario{Rate: rateArg, Count: n, Window: w.String()}
	out.Scenario = sc
	maxProbes := 60
	if o.Tier == "thorough" {
		maxProbes = 300
	}
	if p.pct("app", 25) {
		s := genScan(p, genKnobs{maxProbes: maxProbes, cmds: appCmds[:1], allowExcl: true, remotePct: 50})
		s.Workers = p.pick("workers", 1, 2, 7, 100, 1000)
		s.Rate = rateArg
		s.JSON = true
		wd := s.world()
		sp := &socksPlan{salt: uint64(p.n("salt", 1<<30)), mix: []int{sbProxy, sbAuth, sbRefuse, sbCloseAfter, sbSilent}, latMax: p.dur("latmax", time.Microsecond, 50*time.Millisecond), connMax: 5 * time.Millisecond}
		sc.Stalls = true // probe latencies are "stalls": only the lower bound applies
		wd.tcp = sp.install
		if p.pct("slowlist", 30) {
			// the target list comes from a pipe whose writer pauses for many limiter intervals: the
			// workers sit idle meanwhile; what may start back to back afterwards is the limiter's slack
			per := w / time.Duration(n)
			stallFor := (time.Duration(15+p.n("liststallx", 40)) * per).String()
			if data, ok := wd.Files[targetsFn]; ok && len(data) > 2 {
				wd.FileFault = map[string]FileFault{targetsFn: {ErrAt: -1, StallAt: 1 + p.n("liststallat", len(data)-1), StallFor: stallFor}}
			} else if wd.Stdin != nil && len(*wd.Stdin) > 2 && s.FromStdin {
				wd.FileFault = map[string]FileFault{"-": {ErrAt: -1, StallAt: 1 + p.n("liststallat", len(*wd.Stdin)-1), StallFor: stallFor}}
			}
		}
		cancelled := false
		if p.pct("cancel", 35) {
			// Ctrl-C while workers wait for their turn at the limiter: what is started afterwards is
			// still a probe started and must be paced like any other
			cancelled = true
			wd.SigintAt = p.dur("cancelat", 1, time.Duration(s.nprobes())*w/time.Duration(n)+time.Millisecond).String()
		}
		sc.App = &c16AppScenario{Spec: s, World: wd}
		cr := runCmd(t, c, wd, o.Trace)
		out.Res = &cr.Res
		out.Stats["cmd:socks"]++
		out.Nontrivial = len(cr.Dials) >= 2
		out.Key = fmt.Sprintf("socks/%s/%d/%016x", rateArg, len(cr.Dials), cr.Res.Hash)
		if crashOrHang(out, "C15", cr) {
			return out
		}
		if cr.ExecErr != "" {
			out.violate("C15.exec-error", "socks", "valid rate %q refused: %s", rateArg, cr.ExecErr)
			return out
		}
		var ts []time.Duration
		for _, d := range cr.Dials {
			ts = append(ts, d.T)
		}
		if msg := checkSpacing(ts, n, w, false); msg != "" {
			out.violate("C15.too-fast", "socks", "argv %v: %s", wd.Argv, msg)
		}
		if cancelled && cr.Res.SigFired {
			simrtProbe(&cr.Res, "cancel-while-throttled")
		} else if want := s.nprobes(); len(cr.Dials) != want {
			out.violate("C15.probe-count", "socks", "argv %v: %d probes started, %d expected", wd.Argv, len(cr.Dials), want)
		}
		return out
	}
	k := pktKnobs{
		gen:        genKnobs{maxProbes: maxProbes, cmds: packetCmds, allowVPN: true, allowExcl: true, chunkedPct: 4, remotePct: 50},
		unsolMax:   0,
		exitDelays: []string{"", "10ms", "1s"},
		flagIndex:  -1,
	}
	ps := buildPacketScenario(p, o, k)
	ps.Spec.Rate = rateArg
	// rebuild argv with the rate (world() is a pure function of the spec)
	w2 := ps.Spec.world()
	w2.NumCPU, w2.onWrite, w2.onFilter = ps.World.NumCPU, ps.World.onWrite, ps.World.onFilter
	ps.World = w2
	ps.plan.alivePct = 100
	// replies quickly, so that they arrive while sending is still throttled
	ps.plan.maxDelay = time.Duration(1 + p.n("fastreply", int(w/time.Duration(n))+1000))
	if ps.plan.maxDelay > ps.exitDelay {
		ps.plan.maxDelay = ps.exitDelay
	}
	if p.pct("stall", 30) {
		sc.Stalls = true
		w2.NicStallEvery = 1 + p.n("stallevery", 9)
		w2.NicStallFor = p.dur("stallfor", time.Microsecond, 4*w/time.Duration(n)+time.Millisecond).String()
		if p.pct("longstall", 40) {
			// the sender sits idle for many limiter intervals: what may leave back to back afterwards
			// is the limiter's fixed slack, not one probe per interval missed
			w2.NicStallEvery = 4 + p.n("lstallevery", 12)
			w2.NicStallFor = (time.Duration(15+p.n("lstallx", 40)) * w / time.Duration(n)).String()
		}
	}
	if p.pct("nicerr", 20) {
		// a write that fails is still a probe that was charged to the limiter; the pace of the others
		// must not change because of it
		w2.NicErrEvery = 2 + p.n("nicerrevery", 9)
	}
	sc.Pkt = ps
	cr := runPacketScenario(t, c, o, ps)
	out.Res = &cr.Res
	out.Stats["cmd:"+ps.Spec.Kind]++
	out.Stats["frames"] += len(cr.Wire)
	out.Nontrivial = len(cr.Wire) >= 2
	out.Key = fmt.Sprintf("%v/%s/%d/%016x", ps.Spec.Cmd, rateArg, len(cr.Wire), cr.Res.Hash)
	if crashOrHang(out, "C15", cr) {
		return out
	}
	if cr.ExecErr != "" {
		out.violate("C15.exec-error", ps.Spec.Kind, "valid rate %q refused: %s (argv %v)", rateArg, cr.ExecErr, w2.Argv)
		return out
	}
	sig := ps.Spec.Kind
	// per socket: each chunk of a chunked scan builds a fresh limiter
	bySock := map[int][]time.Duration{}
	for _, f := range cr.Wire {
		bySock[f.Sock] = append(bySock[f.Sock], f.T)
	}
	var sockIDs []int
	for id := range bySock {
		sockIDs = append(sockIDs, id)
	}
	sort.Ints(sockIDs)
	for _, id := range sockIDs {
		ts := bySock[id]
		if msg := checkSpacing(ts, n, w, !sc.Stalls); msg != "" {
			or := "C15.too-fast"
			if len(msg) > 0 && !sc.Stalls && containsStr(msg, "charged more than once") {
				or = "C15.too-slow"
			}
			out.violate(or, sig, "argv %v socket %d: %s", w2.Argv, id, msg)
			break
		}
	}
	if want := ps.Spec.nprobes(); len(cr.Wire) != want {
		out.violate("C15.probe-count", sig, "argv %v: %d frames, %d expected", w2.Argv, len(cr.Wire), want)
	}
	// receiving is not slowed: a reply-shaped frame is on stdout at the virtual instant it arrived
	sh := ps.plan.sh
	var arrivals []time.Duration
	closeT := map[int]time.Duration{}
	for _, s := range cr.Socks {
		closeT[s.ID] = s.CloseT
	}
	for _, d := range cr.Dels {
		if _, ok := sh.replyRecord(d.Data); ok && d.T < closeT[d.Sock] {
			arrivals = append(arrivals, d.T)
		}
	}
	var prints []time.Duration
	for _, wr := range cr.Out {
		prints = append(prints, wr.T)
	}
	if len(prints) == len(arrivals) && w2.OutStallEvery == 0 {
		for i := range arrivals {
			if prints[i] != arrivals[i] {
				out.violate("C15.receive-slowed", sig, "argv %v: reply %d arrived at %v but was printed at %v (sending throttled to %s)", w2.Argv, i, arrivals[i], prints[i], rateArg)
				break
			}
		}
		if len(arrivals) > 0 {
			simrtProbe(&cr.Res, "reply-while-throttled")
		}
	} else if len(prints) != len(arrivals) {
		out.violate("C15.receive-slowed", sig+"/count", "argv %v: %d reply-shaped frames arrived before exit, %d records printed", w2.Argv, len(arrivals), len(prints))
	}
	return out
}

func containsStr(s, sub string) bool {
	return len(s) >= len(sub) && (func() bool {
		for i := 0; i+len(sub) <= len(s); i++ {
			if s[i:i+len(sub)] == sub {
				return true
			}
		}
		return false
	})()
}

func init() {
	register(&Suite{Name: "C15-rate", Prop: "C15", Doc: "--rate N/W on packet and socks scans: spacing of departures on the virtual clock, charge-once, receive not slowed", Run: runC15})
}
