package harness

import (
	"bytes"
	"fmt"
	"strings"
	"testing"
	"time"

	"verif/sim/pktcodec"
	"verif/sim/simrt"
)

// C05 — every probe frame decodes (independent codec) to exactly the requested fields.

type frameExpect struct {
	TTL      uint8  `json:"ttl"`
	IPFlags  uint8  `json:"ipflags"`
	Proto    uint8  `json:"proto"`
	ProtoSet bool   `json:"proto_overridden"`
	IPLen    int    `json:"iplen"` // 0 = computed
	Type     uint8  `json:"icmp_type"`
	Code     uint8  `json:"icmp_code"`
	Payload  []byte `json:"payload"` // nil = command default
	PayloadSet bool `json:"payload_set"`
	SrcIP    string `json:"srcip"`
	SrcMAC   string `json:"srcmac"`
	TCPFlags uint16 `json:"tcpflags"`
}

func payloadArg(b []byte) string {
	var sb strings.Builder
	for _, c := range b {
		fmt.Fprintf(&sb, "\\x%02x", c)
	}
	return sb.String()
}

var ipFlagNames = []struct {
	name string
	bit  uint8
}{{"df", 2}, {"mf", 1}, {"evil", 4}}

func randCase(p picker, s string) string {
	b := []byte(s)
	for i := range b {
		if p.bool("case") {
			b[i] = byte(strings.ToUpper(string(b[i]))[0])
		}
	}
	return string(b)
}

// genFrameOptions draws the per-command frame options and appends the CLI flags to the spec.
func genFrameOptions(p picker, s *scanSpec, flagSubset int) *frameExpect {
	fe := &frameExpect{TTL: 64, IPFlags: 2, SrcIP: ourIPStr, SrcMAC: "02:00:00:00:00:01"}
	if s.VPN {
		fe.SrcIP, fe.SrcMAC = "10.8.0.2", ""
	}
	if p.pct("srcip", 20) {
		fe.SrcIP = ipStr(ipU32("10.0.0.0") + uint32(1+p.n("srcipv", 200)))
		if p.bool("srcipfar") {
			fe.SrcIP = ipStr(ipU32("192.0.2.0") + uint32(p.n("srcipv2", 255)))
		}
		s.Extra = append(s.Extra, "--srcip", fe.SrcIP)
	}
	if !s.VPN && p.pct("srcmac", 20) {
		fe.SrcMAC = fmt.Sprintf("0a:%02x:%02x:%02x:%02x:%02x", p.n("m", 256), p.n("m", 256), p.n("m", 256), p.n("m", 256), p.n("m", 256))
		s.Extra = append(s.Extra, "--srcmac", fe.SrcMAC)
	}
	switch s.Kind {
	case "tcp":
		sub := ""
		if len(s.Cmd) > 1 {
			sub = s.Cmd[1]
		}
		switch {
		case flagSubset > 0:
			s.Cmd = []string{"tcp"}
			s.TCPFlags = nil
			var names []string
			for i, n := range tcpFlagNames {
				bit := []uint16{pktcodec.SYN, pktcodec.ACK, pktcodec.FIN, pktcodec.RST, pktcodec.PSH, pktcodec.URG, pktcodec.ECE, pktcodec.CWR, pktcodec.NS}[i]
				if uint16(flagSubset)&bit != 0 {
					names = append(names, randCase(p, n))
				}
			}
			for i := len(names) - 1; i > 0; i-- { // permuted order
				j := p.n("perm", i+1)
				names[i], names[j] = names[j], names[i]
			}
			if p.pct("repeat", 10) {
				names = append(names, names[0]) // a flag named twice still sets its bit once
			}
			s.TCPFlags = names
			fe.TCPFlags = uint16(flagSubset)
		case len(s.TCPFlags) > 0:
			for _, n := range s.TCPFlags {
				for i, m := range tcpFlagNames {
					if strings.EqualFold(n, m) {
						fe.TCPFlags |= []uint16{pktcodec.SYN, pktcodec.ACK, pktcodec.FIN, pktcodec.RST, pktcodec.PSH, pktcodec.URG, pktcodec.ECE, pktcodec.CWR, pktcodec.NS}[i]
					}
				}
			}
		case sub == "fin":
			fe.TCPFlags = pktcodec.FIN
		case sub == "null":
			fe.TCPFlags = 0
		case sub == "xmas":
			fe.TCPFlags = pktcodec.FIN | pktcodec.PSH | pktcodec.URG
		default:
			fe.TCPFlags = pktcodec.SYN
		}
	case "icmp", "udp":
		if s.Kind == "icmp" {
			fe.Type, fe.Code, fe.Proto = 8, 0, pktcodec.ProtoICMP
		} else {
			fe.Proto = pktcodec.ProtoUDP
		}
		if p.pct("ttl", 40) {
			fe.TTL = uint8(p.n("ttlv", 256))
			s.Extra = append(s.Extra, "--ttl", fmt.Sprint(fe.TTL))
		}
		if p.pct("ipflags", 40) {
			fe.IPFlags = 0
			var names []string
			for _, f := range ipFlagNames {
				if p.bool("ipf") {
					names = append(names, randCase(p, f.name))
					fe.IPFlags |= f.bit
				}
			}
			// (no name drawn: `--ipflags ""` is the explicit empty flag set - the only way to send
			// probes without DF, the default)
			s.Extra = append(s.Extra, "--ipflags", strings.Join(names, ","))
		}
		if p.pct("ipproto", 15) {
			fe.Proto = uint8(p.n("protov", 256))
			fe.ProtoSet = true
			s.Extra = append(s.Extra, "--ipproto", fmt.Sprint(fe.Proto))
		}
		if p.pct("iplen", 12) {
			fe.IPLen = 1 + p.n("iplenv", 65535)
			s.Extra = append(s.Extra, "--iplen", fmt.Sprint(fe.IPLen))
		}
		if s.Kind == "icmp" {
			if p.pct("type", 35) {
				fe.Type = uint8(p.n("typev", 256))
				s.Extra = append(s.Extra, "--type", fmt.Sprint(fe.Type))
			}
			if p.pct("code", 35) {
				fe.Code = uint8(p.n("codev", 256))
				s.Extra = append(s.Extra, "--code", fmt.Sprint(fe.Code))
			}
		}
		if p.pct("payload", 50) {
			n := 1 + p.n("plen", 64)
			if p.pct("longpayload", 20) {
				n = 1 + p.n("plen2", 1400)
			}
			b := make([]byte, n)
			for i := range b {
				b[i] = byte(p.n("pb", 256))
			}
			fe.Payload, fe.PayloadSet = b, true
			s.Extra = append(s.Extra, "--payload", payloadArg(b))
		}
	}
	return fe
}

func expectedDstMAC(s *scanSpec, ip uint32) string {
	mac := ""
	if s.CacheGw && ip == ipU32(gwIP) {
		return gwMAC // the gateway line is the last line of the generated cache
	}
	for _, e := range s.Cache {
		if ipU32(e.IP) == ip {
			mac = e.MAC
		}
	}
	if mac != "" {
		return mac
	}
	return gwMAC
}

// checkFrame compares one written frame with the request it must carry.
func checkFrame(s *scanSpec, fe *frameExpect, data []byte) []string {
	var bad []string
	add := func(f string, a ...interface{}) { bad = append(bad, fmt.Sprintf(f, a...)) }
	p, err := pktcodec.Decode(data, !s.VPN)
	if err != nil {
		return []string{"does not decode: " + err.Error()}
	}
	zeroTrailer := func() {
		for _, b := range p.Trailer {
			if b != 0 {
				add("non-zero bytes after the end of the packet (padding leak): % x", p.Trailer)
				return
			}
		}
	}
	if !s.VPN {
		if pktcodec.MACString(p.EthSrc[:]) != fe.SrcMAC {
			add("ethernet source %s, want %s", pktcodec.MACString(p.EthSrc[:]), fe.SrcMAC)
		}
	}
	if s.Kind == "arp" {
		a := p.ARP
		if a == nil {
			return append(bad, "not an ARP frame")
		}
		if pktcodec.MACString(p.EthDst[:]) != "ff:ff:ff:ff:ff:ff" {
			add("ARP request not broadcast: %s", pktcodec.MACString(p.EthDst[:]))
		}
		if a.HType != 1 || a.PType != pktcodec.EtherTypeIPv4 || a.HLen != 6 || a.PLen != 4 || a.Op != 1 {
			add("ARP header fields htype=%d ptype=%#x hlen=%d plen=%d op=%d", a.HType, a.PType, a.HLen, a.PLen, a.Op)
		}
		if pktcodec.MACString(a.SHA) != fe.SrcMAC {
			add("ARP sender MAC %s, want %s", pktcodec.MACString(a.SHA), fe.SrcMAC)
		}
		if len(a.SPA) == 4 && fmt.Sprintf("%d.%d.%d.%d", a.SPA[0], a.SPA[1], a.SPA[2], a.SPA[3]) != fe.SrcIP {
			add("ARP sender IP % x, want %s", a.SPA, fe.SrcIP)
		}
		if !bytes.Equal(a.THA, make([]byte, 6)) {
			add("ARP target MAC not zero: % x", a.THA)
		}
		zeroTrailer()
		return bad
	}
	ip := p.IP
	if ip == nil {
		return append(bad, "no IPv4 header")
	}
	if !s.VPN {
		if want := expectedDstMAC(s, pktcodec.U32(ip.Dst)); pktcodec.MACString(p.EthDst[:]) != want {
			add("ethernet destination %s, want %s", pktcodec.MACString(p.EthDst[:]), want)
		}
		if p.EthType != pktcodec.EtherTypeIPv4 {
			add("ethertype %#x", p.EthType)
		}
	}
	if pktcodec.IPString(ip.Src) != fe.SrcIP {
		add("source IP %s, want %s", pktcodec.IPString(ip.Src), fe.SrcIP)
	}
	if ip.IHL != 5 {
		add("IHL %d", ip.IHL)
	}
	if ip.ID == 0 {
		add("IP id is zero")
	}
	if ip.TTL != fe.TTL {
		add("TTL %d, want %d", ip.TTL, fe.TTL)
	}
	if ip.Flags != fe.IPFlags {
		add("IP flags %03b, want %03b", ip.Flags, fe.IPFlags)
	}
	if ip.FragOff != 0 {
		add("fragment offset %d", ip.FragOff)
	}
	if !ip.CsumOK {
		add("bad IPv4 header checksum")
	}
	lenOverride := fe.IPLen != 0
	if lenOverride {
		if int(ip.TotalLen) != fe.IPLen {
			add("IP total length %d, want the requested %d verbatim", ip.TotalLen, fe.IPLen)
		}
	}
	wantProto := map[string]uint8{"tcp": pktcodec.ProtoTCP, "udp": pktcodec.ProtoUDP, "icmp": pktcodec.ProtoICMP}[s.Kind]
	if fe.ProtoSet {
		if ip.Proto != fe.Proto {
			add("IP protocol %d, want the requested %d verbatim", ip.Proto, fe.Proto)
		}
	} else if ip.Proto != wantProto {
		add("IP protocol %d, want %d", ip.Proto, wantProto)
	}
	// transport header: decode as the command's protocol whatever the protocol field says;
	// with a length override the datagram is re-delimited by the frame itself
	q := p
	if lenOverride || fe.ProtoSet {
		raw := data
		if !s.VPN {
			raw = data[14:]
		}
		dg := append([]byte{}, raw...)
		if lenOverride {
			// strip Ethernet padding: gopacket pads to 60 bytes; the datagram length is unknown
			// from the header, so take the frame as it is (minimum-size frames are skipped below)
			dg[2], dg[3] = byte(len(dg)>>8), byte(len(dg))
		}
		dg[9] = wantProto
		// fix the header checksum of the patched copy
		dg[10], dg[11] = 0, 0
		cs := pktcodec.Checksum(dg[:20])
		dg[10], dg[11] = byte(cs>>8), byte(cs)
		q, err = pktcodec.Decode(dg, false)
		if err != nil {
			return append(bad, "transport header does not decode: "+err.Error())
		}
	} else {
		for _, pr := range p.Problems {
			add("%s", pr)
		}
		if !s.VPN {
			zeroTrailer()
			if want := max(60, 14+int(ip.TotalLen)); len(data) != want {
				add("frame length %d, want %d (IP total length %d)", len(data), want, ip.TotalLen)
			}
		} else if len(p.Trailer) != 0 {
			add("%d bytes after the end of the datagram", len(p.Trailer))
		}
	}
	padded := !s.VPN && len(data) == 60 // possibly padded: payload comparison needs the exact length
	switch s.Kind {
	case "tcp":
		t := q.TCP
		if t == nil {
			return append(bad, fmt.Sprintf("no TCP header (%v)", q.Problems))
		}
		if t.Flags != fe.TCPFlags {
			add("TCP flags %s (%09b), want %s", flagString(t.Flags), t.Flags, flagString(fe.TCPFlags))
		}
		if t.SrcPort < 32768 || t.SrcPort > 60999 {
			add("TCP source port %d outside 32768..60999", t.SrcPort)
		}
		if !t.CsumOK {
			add("bad TCP checksum")
		}
		if err := pktcodec.TCPOptionsWellFormed(t.Options); err != nil {
			add("TCP options: %v", err)
		}
		if len(t.Payload) != 0 {
			add("TCP probe carries %d payload bytes", len(t.Payload))
		}
	case "udp":
		u := q.UDP
		if u == nil {
			return append(bad, fmt.Sprintf("no UDP header (%v)", q.Problems))
		}
		if u.SrcPort < 32768 || u.SrcPort > 60999 {
			add("UDP source port %d outside 32768..60999", u.SrcPort)
		}
		if !lenOverride {
			if !u.CsumOK {
				add("bad UDP checksum")
			}
			if int(u.Len) != 8+len(u.Payload) {
				add("UDP length %d, payload %d", u.Len, len(u.Payload))
			}
			if !(padded && lenOverride) && !bytes.Equal(u.Payload, fe.Payload) {
				add("UDP payload %d bytes % x, want %d bytes % x", len(u.Payload), head(u.Payload), len(fe.Payload), head(fe.Payload))
			}
		} else if !padded && !bytes.Equal(u.Payload, fe.Payload) {
			add("UDP payload %d bytes, want %d bytes", len(u.Payload), len(fe.Payload))
		}
	case "icmp":
		c := q.ICMP
		if c == nil {
			return append(bad, fmt.Sprintf("no ICMP header (%v)", q.Problems))
		}
		if c.Type != fe.Type || c.Code != fe.Code {
			add("ICMP type/code %d/%d, want %d/%d", c.Type, c.Code, fe.Type, fe.Code)
		}
		if !c.CsumOK && !(lenOverride && padded) {
			add("bad ICMP checksum")
		}
		if fe.PayloadSet {
			if !(lenOverride && padded) && !bytes.Equal(c.Payload, fe.Payload) {
				add("ICMP payload %d bytes % x, want %d bytes % x", len(c.Payload), head(c.Payload), len(fe.Payload), head(fe.Payload))
			}
		} else if !(lenOverride && padded) && len(c.Payload) != 48 {
			add("ICMP default payload %d bytes, want 48", len(c.Payload))
		}
	}
	return bad
}

func head(b []byte) []byte {
	if len(b) > 16 {
		return b[:16]
	}
	return b
}

func probeDst(s *scanSpec, data []byte) (k probeKey) {
	k, _, _ = probeOf(s.Kind, data, s.VPN)
	return
}

type c05Scenario struct {
	*pktScenario
	Expect *frameExpect `json:"expect"`
}

func runC05(t *testing.T, c simrt.Chooser, o Opts) *Out {
	p := picker{c}
	k := pktKnobs{
		gen:       genKnobs{maxProbes: 60, cmds: packetCmds, allowVPN: true, allowStdin: false, allowExcl: false, chunkedPct: 2, remotePct: 50},
		flagIndex: -1, exitDelays: []string{"1ms"},
	}
	flagSubset := 0
	if o.Index < 511 {
		flagSubset = o.Index + 1
		k.gen.cmds = [][]string{{"tcp", "--flags"}}
	}
	// build the spec first, then add frame options, then the world
	s := genScan(p, k.gen)
	longHistory := o.Tier == "thorough" && o.Index >= 511 && o.Index < 515
	if longHistory {
		// one filler instance builds more than 2^16 frames (per-filler counters wrap): 2 hosts x
		// 35 000 ports, for udp / tcp syn / tcp with flags / icmp with many addresses
		kinds := [][]string{{"udp"}, {"tcp", "syn"}, {"tcp"}, {"icmp"}}
		s = &scanSpec{Cmd: kinds[o.Index-511], Kind: kinds[o.Index-511][0], Mode: "subnet", JSON: true, GwMAC: gwMAC}
		if s.Kind == "icmp" {
			s.Subnet = mkCIDR(ipU32("100.64.0.0"), 15) // 131072 addresses
		} else {
			s.Subnet = mkCIDR(ipU32("198.51.100.10"), 31)
			s.Ports = []portRange{{1, 35000}}
			if o.Index == 513 {
				s.TCPFlags = []string{"fin", "psh"}
			}
		}
		s.SubnetArg = s.Subnet.String()
	}
	if len(s.Cache) == 0 && !s.VPN && s.Kind != "arp" && p.pct("cache", 50) {
		// some destinations have their own cache entry
		want := s.expected()
		i := 0
		for _, key := range sortedProbeKeys(want) {
			if i%3 == 0 {
				s.Cache = append(s.Cache, fileEntryMAC{IP: ipStr(key.IP), MAC: pktcodec.MACString(func() []byte { m := hostMAC(key.IP); return m[:] }())})
			}
			i++
			if i > 30 {
				break
			}
		}
		sortCache(s.Cache)
	}
	fe := genFrameOptions(p, s, flagSubset)
	s.ExitDelay = "1ms"
	w := s.world()
	w.NumCPU = p.pick("numcpu", 1, 2, 4, 16)
	if longHistory {
		w.maxSteps = 12_000_000
		simrtFault(&Out{Stats: map[string]int{}}, "long-history")
	}
	nicFaults := !longHistory && p.pct("nicfaults", 15)
	if nicFaults {
		// a NIC that stalls and now and then refuses a frame: every frame handed to it, before and
		// after a refusal, is still a well-formed probe with the requested fields
		w.NicErrEvery = 2 + p.n("nicerrevery", 24)
		w.NicStallEvery = 1 + p.n("nicstallevery", 4)
		w.NicStallFor = p.dur("nicstallfor", time.Microsecond, time.Millisecond).String()
	}
	sc := &c05Scenario{pktScenario: &pktScenario{Spec: s, World: w}, Expect: fe}
	out := &Out{Scenario: sc, Stats: map[string]int{}}
	cr := runCmd(t, c, w, o.Trace)
	out.Res = &cr.Res
	out.Stats["frames"] += len(cr.Wire)
	out.Stats["cmd:"+s.Kind]++
	out.Nontrivial = len(cr.Wire) >= 1
	out.Key = fmt.Sprintf("%v/%v/%v/%016x", s.Cmd, s.TCPFlags, s.Extra, cr.Res.Hash)
	if longHistory {
		simrtProbe(&cr.Res, "more-than-65536-frames-from-one-filler")
	}
	if crashOrHang(out, "C05", cr) {
		return out
	}
	if cr.ExecErr != "" {
		out.violate("C05.exec-error", s.Kind, "valid options refused: %s (argv %v)", cr.ExecErr, w.Argv)
		return out
	}
	if len(cr.Errs) > 0 && !nicFaults {
		out.violate("C05.errors", s.Kind, "error records for valid options (argv %v): %v", w.Argv, cr.Errs[0])
	}
	for _, f := range cr.Wire {
		if f.Altered {
			out.violate("C05.altered", s.Kind, "frame %d changed while it was being written", f.Idx)
			break
		}
		if bad := checkFrame(s, fe, f.Data); len(bad) > 0 {
			sig := s.Kind
			if s.VPN {
				sig += "/vpn"
			}
			if fe.IPLen != 0 {
				sig += "/iplen"
			}
			if fe.ProtoSet {
				sig += "/ipproto"
			}
			out.violate("C05.frame", sig+"/"+strings.SplitN(bad[0], " ", 3)[0], "argv %v frame %d (%d bytes): %v\n% x", w.Argv, f.Idx, len(f.Data), firstN(bad, 6), head(f.Data[:min(len(f.Data), 80)]))
			break
		}
	}
	return out
}

func sortCache(c []fileEntryMAC) {
	for i := 1; i < len(c); i++ {
		for j := i; j > 0 && c[j].IP < c[j-1].IP; j-- {
			c[j], c[j-1] = c[j-1], c[j]
		}
	}
}

func init() {
	register(&Suite{Name: "C05-frames", Prop: "C05", Doc: "every frame on the simulated wire decoded by the independent codec and compared with the requested fields", Run: runC05,
		Enum: func(string) int { return 511 }})
}
