package harness

import (
	"time"
	"fmt"
	"regexp"
	"sort"
	"strings"
	"testing"

	"verif/sim/simrt"
)

// C13 — bad target-list entries become one faithful error each, never a probe (command level).
//
// The reference model is the list of generated lines: every line is either a valid entry (one
// probe per pass unless excluded / without MAC) or a bad entry with the set of cause classes an
// error record may state for it.  Processing may stop at a bad line; if it goes on, later lines
// are handled as if the bad line were absent.

type c13Line struct {
	Text    string   `json:"text"`
	Bad     bool     `json:"bad,omitempty"`
	Classes []string `json:"classes,omitempty"` // acceptable cause classes of the error record
	IP      string   `json:"ip,omitempty"`
	Port    int      `json:"port,omitempty"`
	Tag     string   `json:"tag"`
}

type c13Scenario struct {
	Spec   *scanSpec  `json:"spec"`
	World  *WorldSpec `json:"world"`
	Lines  []c13Line  `json:"lines"`
	MACFor string     `json:"mac_stage"` // cache-hit | gateway | none | vpn | n/a
	Passes int        `json:"passes"`
}

func shortText(s string) string {
	if len(s) > 90 {
		return s[:60] + fmt.Sprintf("...(%d bytes)", len(s))
	}
	return s
}

// c13BadCatalogue returns bad lines; withPort = pairs mode.
// c13AllowV6: IPv6 addresses in the list (well-formed addresses the IPv4 scans cannot probe: one
// error each, like any other unusable address) - only where a gateway MAC exists, so that the entry
// reaches the packet filler instead of ending as "no MAC"; set per run by runC13.
var c13AllowV6 bool

func c13BadLine(p picker, withPort bool, someIP string) c13Line {
	type bl struct {
		text    string
		classes []string
		tag     string
	}
	port := 1 + p.n("bport", 65535)
	var cat []bl
	if withPort {
		cat = []bl{
			{fmt.Sprintf(`{"port":%d}`, port), []string{"address"}, "missing-ip"},
			{fmt.Sprintf(`{"ip":"","port":%d}`, port), []string{"address"}, "empty-ip"},
			{fmt.Sprintf(`{"ip":"10.0.0.300","port":%d}`, port), []string{"address"}, "bad-ip"},
			{fmt.Sprintf(`{"ip":"10.0.0","port":%d}`, port), []string{"address"}, "bad-ip"},
			{fmt.Sprintf(`{"ip":"host.example","port":%d}`, port), []string{"address"}, "bad-ip"},
			{fmt.Sprintf(`{"ip":"%s/31","port":%d}`, someIP, port), []string{"address"}, "range-as-ip"},
			{fmt.Sprintf(`{"ip":"%s"}`, someIP), []string{"port"}, "missing-port"},
			{fmt.Sprintf(`{"ip":"%s","port":0}`, someIP), []string{"port"}, "port-0"},
			{fmt.Sprintf(`{"ip":"%s","port":65536}`, someIP), []string{"port"}, "port-65536"},
			{fmt.Sprintf(`{"ip":"%s","port":-%d}`, someIP, 1+p.n("neg", 70000)), []string{"port"}, "port-negative"},
			{fmt.Sprintf(`{"ip":"%s","port":%d}`, someIP, 65537+p.n("big", 1<<20)), []string{"port"}, "port-big"},
			{fmt.Sprintf(`{"ip":"%s","port":"%d"}`, someIP, port), []string{"json", "port"}, "port-string"},
			{fmt.Sprintf(`{"ip":5,"port":%d}`, port), []string{"json", "address"}, "ip-number"},
			{fmt.Sprintf(`{"ip":"%s","port":%d`, someIP, port), []string{"json"}, "truncated-json"},
			{`garbage`, []string{"json"}, "garbage"},
			{``, []string{"json"}, "blank"},
			{`[]`, []string{"json"}, "array"},
			{`{}`, []string{"address", "port"}, "empty-object"},
			{`{"ip":"` + someIP + `","port":80,"pad":"` + strings.Repeat("x", 66000+p.n("pad", 9000)) + `"}`, []string{"toolong", "json"}, "over-long"},
		}
	} else {
		cat = []bl{
			{`{}`, []string{"address"}, "empty-object"},
			{fmt.Sprintf(`{"port":%d}`, port), []string{"address"}, "missing-ip"},
			{`{"ip":""}`, []string{"address"}, "empty-ip"},
			{`{"ip":"10.0.0.300"}`, []string{"address"}, "bad-ip"},
			{`{"ip":"10.0.0"}`, []string{"address"}, "bad-ip"},
			{`{"ip":"host.example"}`, []string{"address"}, "bad-ip"},
			{fmt.Sprintf(`{"ip":"%s/31"}`, someIP), []string{"address"}, "range-as-ip"},
			{`{"ip":5}`, []string{"json", "address"}, "ip-number"},
			{fmt.Sprintf(`{"ip":"%s"`, someIP), []string{"json"}, "truncated-json"},
			{`garbage`, []string{"json"}, "garbage"},
			{``, []string{"json"}, "blank"},
			{`[]`, []string{"json"}, "array"},
			{`{"ip":"` + someIP + `","pad":"` + strings.Repeat("x", 66000+p.n("pad", 9000)) + `"}`, []string{"toolong", "json"}, "over-long"},
		}
	}
	if c13AllowV6 {
		v6 := []string{"2001:db8::7", "fe80::1", "::1", "2001:db8:0:1::ffff"}[p.n("v6addr", 4)]
		if withPort {
			cat = append(cat, bl{fmt.Sprintf(`{"ip":%q,"port":%d}`, v6, port), []string{"address"}, "ipv6"}, bl{fmt.Sprintf(`{"ip":%q,"port":%d}`, v6, port), []string{"address"}, "ipv6"})
		} else {
			cat = append(cat, bl{fmt.Sprintf(`{"ip":%q}`, v6), []string{"address"}, "ipv6"}, bl{fmt.Sprintf(`{"ip":%q}`, v6), []string{"address"}, "ipv6"})
		}
	}
	b := cat[p.n("badkind", len(cat))]
	return c13Line{Text: b.text, Bad: true, Classes: b.classes, Tag: b.tag}
}

var reIPv4 = regexp.MustCompile(`\b\d{1,3}\.\d{1,3}\.\d{1,3}\.\d{1,3}\b`)

// c13Classify maps the text of an error record to the cause class it states.
func c13Classify(text string) string {
	l := strings.ToLower(text)
	switch {
	case strings.Contains(l, "mac"):
		if m := reIPv4.FindString(text); m != "" {
			return "nomac:" + m
		}
		return "nomac:?"
	case strings.Contains(l, "json"):
		return "json"
	case strings.Contains(l, "port"):
		return "port"
	case strings.Contains(l, "too long"):
		return "toolong"
	case strings.Contains(l, "invalid ip"), strings.Contains(l, "address"), strings.Contains(l, "dst ip"), strings.Contains(l, "ipv4"), strings.Contains(l, "ipv6"):
		return "address"
	}
	return "other:" + firstLine(text)
}

// kuhn bipartite matching: can every bad line get its own error with an acceptable class?
func c13Match(lines [][]string, errs []string) bool {
	if len(lines) != len(errs) {
		return false
	}
	matchErr := make([]int, len(errs))
	for i := range matchErr {
		matchErr[i] = -1
	}
	ok := func(li, ei int) bool {
		for _, c := range lines[li] {
			if c == errs[ei] {
				return true
			}
		}
		return false
	}
	var try func(li int, seen []bool) bool
	try = func(li int, seen []bool) bool {
		for ei := range errs {
			if seen[ei] || !ok(li, ei) {
				continue
			}
			seen[ei] = true
			if matchErr[ei] < 0 || try(matchErr[ei], seen) {
				matchErr[ei] = li
				return true
			}
		}
		return false
	}
	for li := range lines {
		if !try(li, make([]bool, len(errs))) {
			return false
		}
	}
	return true
}

func runC13(t *testing.T, c simrt.Chooser, o Opts) *Out {
	p := picker{c}
	// command and target mode
	type cm struct {
		cmd  []string
		mode string
	}
	cms := []cm{
		{[]string{"tcp"}, "pairs"}, {[]string{"tcp", "syn"}, "pairs"}, {[]string{"udp"}, "pairs"}, {[]string{"tcp", "fin"}, "pairs"},
		{[]string{"tcp"}, "ips-ports"}, {[]string{"udp"}, "ips-ports"},
		{[]string{"icmp"}, "ips"}, {[]string{"icmp"}, "ips"},
		{[]string{"socks"}, "pairs"}, {[]string{"socks"}, "ips-ports"},
	}
	sel := cms[p.n("cmdmode", len(cms))]
	s := &scanSpec{Cmd: sel.cmd, Kind: sel.cmd[0], Mode: sel.mode, JSON: p.pct("json", 70)}
	sc := &c13Scenario{Spec: s, MACFor: "n/a", Passes: 1}
	if s.Mode == "ips-ports" {
		if p.pct("multiport", 30) {
			lo := 1 + p.n("plo", 65000)
			s.Ports = []portRange{{lo, lo + 1 + p.n("pw", 2)}}
		} else {
			pt := 1 + p.n("port", 65535)
			s.Ports = []portRange{{pt, pt}}
		}
		sc.Passes = len(s.portList())
		if p.pct("stdin", 25) {
			s.FromStdin = true
		}
	}
	withPort := s.Mode == "pairs"
	// MAC stage of packet scans
	remotePct := 40
	if !s.app() {
		switch p.n("macstage", 5) {
		case 0:
			s.VPN = true
			sc.MACFor = "vpn"
			remotePct = 100
		case 1:
			s.GwMAC = gwMAC
			sc.MACFor = "gateway-flag"
		case 2:
			s.CacheGw = true
			sc.MACFor = "gateway-in-cache"
		default:
			sc.MACFor = "cache-only" // no gateway MAC: destinations outside the cache have no MAC
		}
		s.CacheFile = p.bool("cachefile")
	}
	c13AllowV6 = !s.app() && !s.VPN && (s.GwMAC != "" || s.CacheGw)
	// lines
	n := 1 + p.n("nlines", 14)
	nbadMax := 1 + p.n("nbadmax", 3)
	// error burst: a long list, most of its lines bad in ways that do not stop the reader, and a
	// slow log sink - far more error records in flight than the 100-slot error channels hold
	burst := !s.app() && p.pct("errburst", 4)
	badPct := 30
	if burst {
		n = 120 + p.n("nburst", 250)
		nbadMax, badPct = n, 75
	}
	var lines []c13Line
	nbad := 0
	valid := genEntries(p, n, withPort, remotePct)
	for i := 0; i < n; i++ {
		e := valid[i]
		if burst && nbad < nbadMax && p.pct("bad", badPct) {
			bl := c13BadLine(p, withPort, e.IP)
			for len(bl.Classes) != 1 || (bl.Classes[0] != "address" && bl.Classes[0] != "port") {
				bl = c13BadLine(p, withPort, e.IP)
			}
			lines = append(lines, bl)
			nbad++
			continue
		}
		if !burst && nbad < nbadMax && p.pct("bad", 30) {
			lines = append(lines, c13BadLine(p, withPort, e.IP))
			nbad++
			continue
		}
		text := ""
		switch {
		case withPort && p.pct("extra", 10):
			text = fmt.Sprintf(`{"ip":%q,"port":%d,"comment":"x"}`, e.IP, e.Port)
		case withPort && p.pct("order", 10):
			text = fmt.Sprintf(`{"port":%d,"ip":%q}`, e.Port, e.IP)
		case withPort:
			text = fmt.Sprintf(`{"ip":%q,"port":%d}`, e.IP, e.Port)
		case p.pct("extra", 10):
			text = fmt.Sprintf(`{"ip":%q,"port":%d}`, e.IP, 1+p.n("xport", 65535)) // a port in an address list is ignored
		default:
			text = fmt.Sprintf(`{"ip":%q}`, e.IP)
		}
		lines = append(lines, c13Line{Text: text, IP: e.IP, Port: e.Port, Tag: "valid"})
	}
	if nbad == 0 {
		// at least one bad line, at a drawn position
		k := p.n("badpos", len(lines)+1)
		bl := c13BadLine(p, withPort, valid[0].IP)
		lines = append(lines[:k], append([]c13Line{bl}, lines[k:]...)...)
	}
	// ARP cache: a share of the on-link valid destinations has an entry
	if !s.app() && !s.VPN {
		for _, l := range lines {
			if !l.Bad && mkCIDR(ipU32("10.0.0.0"), 24).contains(ipU32(l.IP)) && p.pct("cached", 60) {
				a := ipU32(l.IP)
				m := hostMAC(a)
				s.Cache = append(s.Cache, fileEntryMAC{IP: l.IP, MAC: fmt.Sprintf("%02x:%02x:%02x:%02x:%02x:%02x", m[0], m[1], m[2], m[3], m[4], m[5])})
			}
		}
	}
	// exclusion stage
	if p.pct("exclude", 45) {
		for _, l := range lines {
			if !l.Bad {
				s.Entries = append(s.Entries, fileEntry{IP: l.IP})
			}
		}
		if len(s.Entries) == 0 {
			s.Entries = []fileEntry{{IP: "10.0.0.9"}}
		}
		s.Exclude = genExclude(p, s)
	}
	s.Entries = []fileEntry{{IP: "10.0.0.9", Port: 9}} // placeholder; the file content is replaced below
	if s.app() {
		s.Workers = p.pick("workers", 1, 2, 7, 100)
	}
	if p.pct("exitdelay", 35) {
		// no or hardly any exit delay: the scan is torn down the moment the last request was handled,
		// error records of the last lines are still on their way
		s.ExitDelay = []string{"0s", "1ns", "1us", "5ms"}[p.n("exitdelayv", 4)]
	}
	w := s.world()
	var sb strings.Builder
	for _, l := range lines {
		sb.WriteString(l.Text + "\n")
	}
	if s.FromStdin {
		d := sb.String()
		w.Stdin = &d
	} else {
		w.Files[targetsFn] = sb.String()
	}
	w.NumCPU = p.pick("numcpu", 1, 2, 4, 16)
	if burst {
		w.ErrStallEvery = 1
		w.ErrStallFor = p.dur("errstall", 100*time.Microsecond, 2*time.Millisecond).String()
	}
	w.tcp = refuseAll
	sc.World = w
	shown := make([]c13Line, len(lines))
	for i, l := range lines {
		shown[i] = l
		shown[i].Text = shortText(l.Text)
	}
	sc.Lines = shown
	out := &Out{Scenario: sc, Stats: map[string]int{"cmd:" + s.Kind: 1, "mode:" + s.Mode: 1, "macstage:" + sc.MACFor: 1}}
	cr := runCmd(t, c, w, o.Trace)
	out.Res = &cr.Res
	out.Nontrivial = true
	var tags []string
	for _, l := range lines {
		tags = append(tags, l.Tag)
	}
	out.Key = fmt.Sprintf("%v/%s/%s/%v/%v/%016x", s.Cmd, s.Mode, sc.MACFor, len(s.Exclude) > 0, tags, cr.Res.Hash)
	sigBase := fmt.Sprintf("%s/%s", s.Kind, s.Mode)
	if crashOrHang(out, "C13", cr) {
		return out
	}
	if cr.ExecErr != "" {
		out.violate("C13.exec-error", sigBase, "argv %v: the scan was refused as a whole: %s", w.Argv, cr.ExecErr)
		return out
	}

	// ---- reference model ---------------------------------------------------------------------
	ex := parseCIDRs(cleanExclude(s.Exclude))
	cacheHas := map[uint32]bool{}
	for _, e := range s.Cache {
		cacheHas[ipU32(e.IP)] = true
	}
	haveGw := s.GwMAC != "" || s.CacheGw
	type modelLine struct {
		bad     bool
		classes []string
		key     probeKey
		skip    bool // excluded: neither probe nor error
		tag     string
	}
	var ml []modelLine
	for _, l := range lines {
		if l.Bad {
			ml = append(ml, modelLine{bad: true, classes: l.Classes, tag: l.Tag})
			continue
		}
		a := ipU32(l.IP)
		m := modelLine{key: probeKey{a, l.Port}, tag: "valid"}
		if !withPort {
			m.key.Port = 0
		}
		if excluded(ex, a) {
			m.skip = true
		} else if !s.app() && !s.VPN && !cacheHas[a] && !haveGw {
			m.bad, m.classes, m.tag = true, []string{"nomac:" + l.IP}, "no-mac"
			simrtProbe(&cr.Res, "no-mac-entry")
		}
		ml = append(ml, m)
	}
	ports := []int{0}
	if s.Mode == "ips-ports" {
		ports = s.portList()
	}
	// observed
	got, undec := gotProbes(s, cr)
	if len(undec) > 0 {
		out.violate("C13.undecodable", sigBase, "%v", firstN(undec, 4))
	}
	var errClasses []string
	for _, e := range cr.Errs {
		if s.app() && strings.HasPrefix(e.Err, "dial tcp ") {
			// outcome of a probe that was made (every simulated endpoint refuses), not an entry error;
			// the dial itself is in the probe multiset
			continue
		}
		errClasses = append(errClasses, c13Classify(e.Err))
	}
	sort.Strings(errClasses)
	// acceptable outcomes: stop at the j-th bad line (j = 1..m) or no stop
	var badIdx []int
	for i, m := range ml {
		if m.bad {
			badIdx = append(badIdx, i)
		}
	}
	outcomeOK := func(stopAt int, passes int) (probesOK, errsOK bool, why string) { // stopAt = index in ml of the stopping line, len(ml) = none
		want := map[probeKey]int{}
		var cls [][]string
		for i, m := range ml {
			if i > stopAt {
				break
			}
			if m.skip {
				continue
			}
			if m.bad {
				for k := 0; k < passes; k++ {
					cls = append(cls, m.classes)
				}
				continue
			}
			for _, pt := range ports {
				k := m.key
				if s.Mode == "ips-ports" {
					k.Port = pt
				}
				want[k]++
			}
		}
		missing, extra := diffMultiset(got, want)
		probesOK = len(missing) == 0 && len(extra) == 0
		errsOK = c13Match(cls, errClasses)
		switch {
		case !probesOK:
			why = fmt.Sprintf("probes: missing %v extra %v", firstN(missing, 4), firstN(extra, 4))
		case !errsOK:
			why = fmt.Sprintf("errors: want one of each %v, got %v", cls, errClasses)
		}
		return
	}
	passOpts := []int{1}
	if sc.Passes > 1 {
		passOpts = []int{sc.Passes, 1}
	}
	okAny := false
	why, whyProbesOK := "", ""
	stops := append(append([]int{}, badIdx...), len(ml))
	for i := len(stops) - 1; i >= 0 && !okAny; i-- {
		for _, ps := range passOpts {
			pok, eok, y := outcomeOK(stops[i], ps)
			if pok && eok {
				okAny = true
				if stops[i] < len(ml) {
					simrtProbe(&cr.Res, "stopped-at-bad-line")
				} else {
					simrtProbe(&cr.Res, "continued-after-bad-line")
				}
				break
			}
			if pok && whyProbesOK == "" {
				whyProbesOK = fmt.Sprintf("probes equal the outcome 'stop at line %d' (%d = continue to the end) but %s", stops[i], len(ml), y)
			}
			if i == len(stops)-1 && why == "" {
				why = y
			}
		}
	}
	if whyProbesOK != "" {
		why = whyProbesOK
	}
	if !okAny {
		// signature: which side fails and how (coarse, so that one defect is one group)
		side := "errors"
		detailSig := ""
		if strings.HasPrefix(why, "probes:") {
			side = "probes"
			switch {
			case strings.Contains(why, "missing []"):
				detailSig = "extra"
			case strings.Contains(why, "extra []"):
				detailSig = "missing"
			default:
				detailSig = "missing+extra"
			}
		} else {
			// observed error classes that no bad line of the file accepts
			acc := map[string]bool{}
			for _, m := range ml {
				for _, cl := range m.classes {
					acc[cl] = true
				}
			}
			seen := map[string]bool{}
			var odd []string
			for _, cl := range errClasses {
				if !acc[cl] && !seen[cl] {
					seen[cl] = true
					if strings.HasPrefix(cl, "nomac:") && cl != "nomac:?" {
						cl = "nomac:other-address"
					}
					odd = append(odd, cl)
				}
			}
			if len(odd) == 0 {
				detailSig = "count"
			} else {
				sort.Strings(odd)
				detailSig = strings.Join(odd, ",")
			}
		}
		stage := sc.MACFor
		if len(s.Exclude) > 0 {
			stage += "+exclude"
		}
		app := "packet"
		if s.app() {
			app = "app"
		}
		sigBase = fmt.Sprintf("%s/%s/%s/%s", app, s.Mode, side, detailSig)
		if s.ExitDelay == "0s" && !s.app() && side == "errors" && detailSig == "count" {
			sigBase += "/exit-delay-0"
		}
		var badTags []string
		_ = badTags
		var raw []string
		for _, e := range cr.Errs {
			raw = append(raw, e.Err)
		}
		out.violate("C13.model", sigBase,
			"argv %v (stages: %s): no acceptable outcome (stop at any bad line, or continue) matches.\nlines: %s\nclosest outcome: %s\nerror records: %q\nprobes sent: %d",
			w.Argv, stage, c13Show(shown), why, raw, len(cr.Wire)+len(cr.Dials))
	}
	return out
}

func c13Show(ls []c13Line) string {
	var sb strings.Builder
	for i, l := range ls {
		fmt.Fprintf(&sb, "\n  %2d [%s] %s", i, l.Tag, l.Text)
	}
	return sb.String()
}

func init() {
	register(&Suite{Name: "C13-badentries", Prop: "C13", Doc: "target files with bad lines at every position under exclusion / ARP-cache stages; one faithful error each, never a probe", Run: runC13})
}
