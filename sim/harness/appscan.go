package harness

import (
	"fmt"
	"io"
	"time"

	"verif/sim/simnet"
	"verif/sim/simrt"
)

// ---- simulated SOCKS5 endpoints --------------------------------------------------------------

// behaviours of a simulated endpoint for the socks scan
const (
	sbProxy       = iota // replies 05 00
	sbAuth               // replies 05 02 / 05 ff
	sbSocks4             // replies 04 00
	sbGarbage            // replies two arbitrary bytes
	sbExtra              // replies 05 00 followed by more bytes
	sbSplit              // replies 05, pause, 00
	sbOneByte            // replies one byte and stalls
	sbSilent             // accepts and stalls
	sbCloseEarly         // accepts and closes at once
	sbCloseAfter         // reads the greeting, then closes
	sbReset              // accepts and resets
	sbRefuse             // connection refused
	sbBlackhole          // SYN never answered
	sbFlood              // floods bytes not starting with 05 00
	sbCount
)

var sbNames = []string{"proxy", "auth", "socks4", "garbage", "extra", "split", "onebyte", "silent", "close-early", "close-after", "reset", "refuse", "blackhole", "flood"}

type socksPlan struct {
	salt      uint64
	mix       []int // behaviours in use
	latMax    time.Duration
	connMax   time.Duration
	positives int
}

func (sp *socksPlan) behaviour(addr string) int {
	h := uint64(0)
	for _, c := range []byte(addr) {
		h = mix64(h, uint64(c))
	}
	return sp.mix[mix64(sp.salt, h)%uint64(len(sp.mix))]
}

func (sp *socksPlan) garbageReply(addr string) [2]byte {
	h := uint64(1)
	for _, c := range []byte(addr) {
		h = mix64(h, uint64(c))
	}
	b := [2]byte{byte(h), byte(h >> 8)}
	if b[0] == 5 && b[1] == 0 {
		b[1] = 1
	}
	return b
}

func worldDur(label string, max time.Duration) time.Duration {
	if max <= 1 {
		return 1
	}
	r := simrt.Current()
	if max < 1<<30 {
		return 1 + time.Duration(r.ChooseWorld(label, int(max)))
	}
	return 1 + time.Duration(r.ChooseWorld(label+".hi", int(max>>20)))<<20 + time.Duration(r.ChooseWorld(label+".lo", 1<<20))
}

// install wires the plan into the simulated TCP network.
func (sp *socksPlan) install(n *simnet.Net) {
	n.Lookup = func(addr string) *simnet.Server {
		b := sp.behaviour(addr)
		srv := &simnet.Server{Mode: simnet.Accept, ConnectTime: worldDur("conn", sp.connMax)}
		switch b {
		case sbRefuse:
			srv.Mode = simnet.Refuse
			return srv
		case sbBlackhole:
			srv.Mode = simnet.Blackhole
			return srv
		}
		srv.Handler = func(c *simnet.TCPConn, rec *simnet.ConnRec) {
			defer c.Close()
			readGreeting := func() bool {
				buf := make([]byte, 16)
				total := 0
				for total < 3 {
					k, err := c.Read(buf)
					rec.AddReceived(buf[:k])
					total += k
					if err != nil {
						return false
					}
				}
				return true
			}
			lat := worldDur("lat", sp.latMax)
			switch b {
			case sbCloseEarly:
				rec.Note("close-early")
				return
			case sbReset:
				rec.Note("reset")
				c.Reset()
				return
			case sbSilent:
				readGreeting()
				rec.Note("stall")
				io.Copy(io.Discard, c) // until the client goes away
				return
			}
			if !readGreeting() {
				return
			}
			simrt.Sleep("socks.lat", lat)
			switch b {
			case sbProxy:
				c.Write([]byte{5, 0})
			case sbAuth:
				c.Write([]byte{5, []byte{2, 0xff, 1}[len(addr)%3]})
			case sbSocks4:
				c.Write([]byte{4, 0})
			case sbGarbage:
				g := sp.garbageReply(addr)
				c.Write(g[:])
			case sbExtra:
				c.Write([]byte{5, 0, 0xde, 0xad, 0xbe, 0xef})
			case sbSplit:
				c.Write([]byte{5})
				simrt.Sleep("socks.split", worldDur("split", sp.latMax))
				c.Write([]byte{0})
			case sbOneByte:
				c.Write([]byte{5})
				io.Copy(io.Discard, c)
				return
			case sbCloseAfter:
				return
			case sbFlood:
				junk := make([]byte, 4096)
				for i := range junk {
					junk[i] = 0x41
				}
				for i := 0; i < 64; i++ {
					if _, err := c.Write(junk); err != nil {
						return
					}
				}
			}
			io.Copy(io.Discard, c)
		}
		return srv
	}
}

// reportable: the reference for "is reported as a SOCKS5 proxy" given the endpoint behaviour,
// provided the reply arrives within the time budget.
func sbPositive(b int) bool { return b == sbProxy || b == sbExtra || b == sbSplit }

func addrOf(k probeKey) string { return fmt.Sprintf("%s:%d", ipStr(k.IP), k.Port) }
