// Package harness contains the simulation suites (scenario generators, reference models,
// oracles) for the sx properties, and the worker entry point driven by /verif/bin/simcheck.
package harness

import (
	"os"
	"encoding/json"
	"fmt"
	"sort"
	"testing"
	"time"

	"verif/sim/simrt"
)

// Violation is one oracle failure of one run.
type Violation struct {
	Oracle string `json:"oracle"` // stable oracle id, e.g. "C07.multiset"
	Sig    string `json:"sig"`    // short structural signature (used for known findings / minimisation)
	Detail string `json:"detail"`
}

// Out is the outcome of one simulated run of a suite.
type Out struct {
	Violations []Violation            `json:"violations,omitempty"`
	Scenario   interface{}            `json:"scenario,omitempty"` // decoded scenario, for humans
	Nontrivial bool                   `json:"nontrivial"`
	Key        string                 `json:"key"` // distinctness key (hash of schedule trace + scenario)
	Stats      map[string]int         `json:"stats,omitempty"`
	Res        *simrt.Result          `json:"-"`
	Extra      map[string]interface{} `json:"extra,omitempty"`
}

func (o *Out) violate(oracle, sig, format string, a ...interface{}) {
	o.Violations = append(o.Violations, Violation{Oracle: oracle, Sig: sig, Detail: fmt.Sprintf(format, a...)})
}

// Opts are per-run options given to a suite.
type Opts struct {
	Tier  string // quick | thorough
	Index int    // run index within the batch (suites use it for enumerations)
	Trace bool
}

// Suite is one scenario family with its oracles.
type Suite struct {
	Name string
	Prop string
	Doc  string
	Run  func(t *testing.T, c simrt.Chooser, o Opts) *Out
	// Enum, if non-nil, returns the size of the enumeration that run indexes [0,size) cover
	// completely in the given tier (0 = none).
	Enum func(tier string) int
}

var suites = map[string]*Suite{}

func register(s *Suite) { suites[s.Name] = s }

func suiteNames() []string {
	var n []string
	for k := range suites {
		n = append(n, k)
	}
	sort.Strings(n)
	return n
}

// picker is a thin convenience layer over the scenario stream of a chooser, usable before the
// run exists (scenario generation happens before simrt.Execute).
type picker struct{ c simrt.Chooser }

func (p picker) n(label string, n int) int {
	if n <= 1 {
		return 0
	}
	return p.c.Choose(simrt.StreamScenario, label, n)
}
func (p picker) between(label string, lo, hi int) int { return lo + p.n(label, hi-lo+1) }
func (p picker) bool(label string) bool               { return p.n(label, 2) == 1 }
func (p picker) pct(label string, pct int) bool       { return p.n(label, 100) < pct }
func (p picker) dur(label string, lo, hi time.Duration) time.Duration {
	if hi <= lo {
		return lo
	}
	// draw in two steps to keep n within int range and get sub-ms resolution
	span := int64(hi - lo)
	if span < 1<<30 {
		return lo + time.Duration(p.n(label, int(span)+1))
	}
	hiPart := p.n(label+".hi", int(span>>20)+1)
	loPart := p.n(label+".lo", 1<<20)
	d := int64(hiPart)<<20 | int64(loPart)
	if d > span {
		d = span
	}
	return lo + time.Duration(d)
}
func (p picker) pick(label string, xs ...int) int { return xs[p.n(label, len(xs))] }

// resultJSON is what the worker prints per run.
type resultJSON struct {
	Suite      string          `json:"suite"`
	Seed       uint64          `json:"seed"`
	Index      int             `json:"index"`
	End        string          `json:"end"`
	Steps      int             `json:"steps"`
	VirtNs     int64           `json:"virt_ns"`
	Hash       string          `json:"hash"`
	Key        string          `json:"key"`
	Nontrivial bool            `json:"nontrivial"`
	Multi      int             `json:"multi"`
	MaxG       int             `json:"maxg"`
	Strategy   string          `json:"strategy"`
	Faults     map[string]int  `json:"faults,omitempty"`
	Probes     map[string]int  `json:"probes,omitempty"`
	Stats      map[string]int  `json:"stats,omitempty"`
	Violations []Violation     `json:"violations,omitempty"`
	Choices    *simrt.Choices  `json:"choices,omitempty"`
	Scenario   json.RawMessage `json:"scenario,omitempty"`
	Trace      []string        `json:"trace,omitempty"`
	WallUs     int64           `json:"wall_us"`
}

func simrtCurrent() *simrt.Run { return simrt.Current() }

// SimProxy is the address of a web proxy that the simulated user's environment names in
// HTTP_PROXY / HTTPS_PROXY (a common desktop and CI configuration). It is in no target set, so
// any probe that is sent there instead of to its target is a confinement violation. net/http
// reads these variables once per process, hence they are set before anything else runs.
const SimProxy = "203.0.113.77:3128"

func init() {
	for _, k := range []string{"HTTP_PROXY", "http_proxy", "HTTPS_PROXY", "https_proxy"} {
		os.Setenv(k, "http://"+SimProxy)
	}
	for _, k := range []string{"NO_PROXY", "no_proxy", "REQUEST_METHOD", "ALL_PROXY", "all_proxy"} {
		os.Unsetenv(k)
	}
}
