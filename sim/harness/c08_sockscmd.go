package harness

import (
	"fmt"
	"testing"
	"time"

	"verif/sim/simrt"
)

// C08 / C09 (command level) — `sx socks` against a population of simulated endpoints.

type c08cScenario struct {
	Spec    *scanSpec  `json:"spec"`
	World   *WorldSpec `json:"world"`
	Timeout string     `json:"timeout"`
	Mix     []string   `json:"endpoint_behaviours"`
	LatMax  string     `json:"latency_below"`
}

func sbError(b int) bool {
	switch b {
	case sbRefuse, sbBlackhole, sbCloseEarly, sbCloseAfter, sbReset, sbSilent, sbOneByte:
		return true
	}
	return false
}

func runC08Cmd(t *testing.T, c simrt.Chooser, o Opts) *Out {
	p := picker{c}
	maxProbes := 150
	if o.Tier == "thorough" && p.pct("big", 10) {
		maxProbes = 1400 // more results than the 1000-slot result buffer
	}
	s := genScan(p, genKnobs{maxProbes: maxProbes, cmds: appCmds[:1], allowExcl: true, allowStdin: true, remotePct: 50})
	s.Workers = p.pick("workers", 1, 2, 3, 7, 100, 1000)
	s.JSON = true
	timeout := []time.Duration{2 * time.Second, 100 * time.Millisecond, 5 * time.Second}[p.n("timeout", 3)]
	if timeout != 2*time.Second {
		s.Extra = append(s.Extra, "-t", timeout.String())
	}
	if p.pct("exitdelay", 40) {
		s.ExitDelay = []string{"300ms", "1s", "5s"}[p.n("ed", 3)] // default or larger
	}
	if p.pct("rate", 20) {
		s.Rate, _, _ = genRate(p)
	}
	w := s.world()
	var mix []int
	all := p.pct("allpositive", 10)
	for b := 0; b < sbCount; b++ {
		if all {
			mix = []int{sbProxy, sbExtra}
			break
		}
		if p.pct("mix", 45) {
			mix = append(mix, b)
		}
	}
	if len(mix) == 0 {
		mix = []int{sbProxy, sbRefuse}
	}
	latHi := timeout / 3
	if p.pct("slowproxies", 30) {
		latHi = timeout * 8 / 10 // answers that use most of the configured budget are still answers
	}
	sp := &socksPlan{salt: uint64(p.n("salt", 1<<30)), mix: mix, latMax: p.dur("latmax", 1, latHi), connMax: timeout / 4}
	w.tcp = sp.install
	sc := &c08cScenario{Spec: s, World: w, Timeout: timeout.String(), LatMax: sp.latMax.String()}
	for _, b := range mix {
		sc.Mix = append(sc.Mix, sbNames[b])
	}
	out := &Out{Scenario: sc, Stats: map[string]int{}}
	cr := runCmd(t, c, w, o.Trace)
	out.Res = &cr.Res
	want := s.expected()
	out.Stats["probes"] += s.nprobes()
	out.Nontrivial = s.nprobes() >= 2
	out.Key = fmt.Sprintf("socks/%s/%d/%d/%v/%016x", s.Mode, s.nprobes(), s.Workers, sc.Mix, cr.Res.Hash)
	if crashOrHang(out, "C08", cr) {
		return out
	}
	if cr.ExecErr != "" {
		out.violate("C08.exec-error", "socks", "valid specification refused: %s (argv %v)", cr.ExecErr, w.Argv)
		return out
	}
	sig := fmt.Sprintf("socks/w%d", min(s.Workers, 2))
	got, bad := gotProbes(s, cr)
	if len(bad) > 0 {
		out.violate("C08.dial-address", sig, "%v", firstN(bad, 3))
	}
	missing, extra := diffMultiset(got, want)
	if len(missing)+len(extra) > 0 {
		out.violate("C08.probe-once", sig, "argv %v: connections differ from the targets: missing %v extra %v", w.Argv, firstN(missing, 6), firstN(extra, 6))
	}
	wantRec, wantErr := map[string]int{}, 0
	for k, n := range want {
		b := sp.behaviour(addrOf(k))
		if sbPositive(b) {
			wantRec[addrOf(k)] += n
		}
		if sbError(b) {
			wantErr += n
		}
	}
	gotRec := map[string]int{}
	lines, complete := stdoutLines(cr.Stdout)
	if !complete {
		out.violate("C08.torn-record", sig, "stdout does not end with a newline")
	}
	for _, l := range lines {
		r, err := parseSocksJSON(l)
		if err != nil {
			out.violate("C08.torn-record", sig, "unparsable record %q: %v", l, err)
			continue
		}
		gotRec[fmt.Sprintf("%s:%d", r.IP, r.Port)]++
	}
	var diffs []string
	for a, n := range wantRec {
		if gotRec[a] != n {
			diffs = append(diffs, fmt.Sprintf("%s (%s): printed %d, want %d", a, sbNames[sp.behaviour(a)], gotRec[a], n))
		}
	}
	for a, n := range gotRec {
		if wantRec[a] == 0 {
			diffs = append(diffs, fmt.Sprintf("%s (%s): printed %d, want 0", a, sbNames[sp.behaviour(a)], n))
		}
	}
	if len(diffs) > 0 {
		out.violate("C08.records", sig, "argv %v: %v", w.Argv, firstN(diffs, 6))
	}
	if len(cr.Errs) != wantErr {
		first := ""
		if len(cr.Errs) > 0 {
			first = cr.Errs[0].Err
		}
		out.violate("C08.errors", sig, "argv %v: %d error records, %d probes failed (each exactly one); first %q", w.Argv, len(cr.Errs), wantErr, first)
	}
	// the configured timeout bounds every probe (connect + at most three data operations): N probes
	// on W workers take at most (N/W + 1) probe bounds, plus the exit delay
	delay := 300 * time.Millisecond
	if s.ExitDelay != "" {
		delay = parseDur(s.ExitDelay)
	}
	if limit := time.Duration(s.nprobes()/s.Workers+1)*(4*timeout+time.Millisecond) + delay + time.Millisecond; cr.ReturnT > limit && s.Rate == "" {
		out.violate("C08.time-bound", sig, "argv %v: the scan of %d targets with %d workers took %v; with the configured timeout %v it can take at most %v", w.Argv, s.nprobes(), s.Workers, cr.ReturnT, timeout, limit)
	}
	if len(lines) > 1000 {
		simrtProbe(&cr.Res, "results-over-1000")
	}
	if wantErr > 100 {
		simrtProbe(&cr.Res, "errors-over-100")
	}
	return out
}

func init() {
	register(&Suite{Name: "C08-sockscmd", Prop: "C08", Doc: "`sx socks` against simulated endpoints (14 behaviours): one connection per target, one record per proxy, one error per failed probe", Run: runC08Cmd})
}
