package harness

import (
	"fmt"
	"strings"
	"testing"
	"time"

	"verif/sim/pktcodec"
	"verif/sim/simrt"
	"verif/sim/simwire"
)

// A packet-scan scenario = scan specification + simulated hosts + unsolicited traffic.

type pktScenario struct {
	Spec      *scanSpec  `json:"spec"`
	World     *WorldSpec `json:"world"`
	AlivePct  int        `json:"alive_pct"`
	OpenPct   int        `json:"open_pct"`
	MaxDelay  string     `json:"reply_delay_below"`
	LatePct   int        `json:"late_reply_pct"`
	DupPct    int        `json:"dup_pct"`
	Unsol     int        `json:"unsolicited_frames"`
	UnsolTags []string   `json:"unsolicited_kinds,omitempty"`
	ExitDelay string     `json:"exit_delay_effective"`
	ReadErrs  int        `json:"injected_read_errors,omitempty"`
	plan      *netPlan
	exitDelay time.Duration
	outGrace  time.Duration // slow stdout: records of frames this close to the exit may be lost
}

type pktKnobs struct {
	gen        genKnobs
	unsolMax   int
	latePct    int
	dupPct     int
	exitDelays []string // "" = default
	flagIndex  int      // >=0: include the TCP flag set with this index among the unsolicited frames
}

const ourIPStr = "10.0.0.1"

func ourIPFor(s *scanSpec) [4]byte {
	if s.VPN {
		return pktcodec.IP4(ipU32("10.8.0.2"))
	}
	return pktcodec.IP4(ipU32(ourIPStr))
}

func inTargets(s *scanSpec, p picker) uint32 {
	if s.Mode == "subnet" {
		return s.Subnet.Base + uint32(p.n("tin", s.Subnet.size()))
	}
	return ipU32(s.Entries[p.n("tin", len(s.Entries))].IP)
}

func outsideTargets(s *scanSpec, p picker) uint32 {
	for i := 0; i < 20; i++ {
		a := []uint32{ipU32("10.0.0.0"), ipU32("198.51.100.0"), ipU32("172.16.0.0"), ipU32("8.8.8.0")}[p.n("tout", 4)] + uint32(p.n("touto", 2048))
		if s.Mode == "subnet" && s.Subnet.contains(a) {
			continue
		}
		return a
	}
	return ipU32("203.0.113.9")
}

func portInside(s *scanSpec, p picker) int {
	r := s.Ports[p.n("pr", len(s.Ports))]
	return r.Lo + p.n("pp", r.Hi-r.Lo+1)
}

func portOutside(s *scanSpec, p picker) int {
	for i := 0; i < 50; i++ {
		x := 1 + p.n("po", 65535)
		if !inRanges(s.Ports, x) {
			return x
		}
	}
	return 0
}

// genUnsolicited builds frames that arrive although nobody asked: other sources, other ports,
// other protocols, every flag combination, every ICMP type/code, IPv6, IP-in-IP, VLAN.
func genUnsolicited(p picker, s *scanSpec, np *netPlan, k pktKnobs, window time.Duration) []unsolFrame {
	n := p.n("nunsol", k.unsolMax+1)
	if k.flagIndex >= 0 && n == 0 {
		n = 1
	}
	var out []unsolFrame
	our := ourIPFor(s)
	chunkedRisk := len(s.Ports) > 100
	for i := 0; i < n; i++ {
		inSub := p.pct("insub", 60)
		var src uint32
		if inSub {
			src = inTargets(s, p)
		} else {
			src = outsideTargets(s, p)
		}
		srcA := pktcodec.IP4(src)
		mac := hostMAC(src)
		opts := pktcodec.IPOpts{ID: uint16(1 + p.n("id", 65535)), TTL: uint8(1 + p.n("ttl", 255))}
		if p.pct("ipopt", 10) {
			opts.Options = []byte{1, 1, 1, 1}
		}
		var frame []byte
		tag := ""
		kind := p.n("ukind", 10)
		if i == 0 && k.flagIndex >= 0 && s.Kind == "tcp" {
			kind = 0
		}
		switch kind {
		case 0, 1, 2: // TCP
			flags := uint16(p.n("flags", 512))
			if i == 0 && k.flagIndex >= 0 {
				flags = uint16(k.flagIndex % 512)
				src = inTargets(s, p)
				srcA, mac = pktcodec.IP4(src), hostMAC(src)
			}
			sport := 1 + p.n("sport", 65535)
			if len(s.Ports) > 0 {
				if (p.pct("pin", 60) || (i == 0 && k.flagIndex >= 0)) && !chunkedRisk {
					sport = portInside(s, p)
				} else {
					sport = portOutside(s, p)
				}
			}
			var topts, payload []byte
			if p.pct("tcpopt", 25) {
				topts = []byte{2, 4, 5, 0xb4, 4, 2, 1, 1}
			}
			if p.pct("payload", 20) {
				payload = []byte(strings.Repeat("x", 1+p.n("plen", 40)))
			}
			seg := pktcodec.EncodeTCP(srcA, our, uint16(sport), uint16(32768+p.n("dport", 28000)), uint32(p.n("seq", 1<<30)), uint32(p.n("ack", 1<<30)), flags, 1024, topts, payload)
			frame = np.wrap(mac, pktcodec.EncodeIPv4(srcA, our, pktcodec.ProtoTCP, seg, opts))
			tag = fmt.Sprintf("tcp[%s]", flagString(flags))
		case 3, 4: // ICMP, any type/code
			typ, code := uint8(p.n("itype", 256)), uint8(p.n("icode", 256))
			if p.pct("common", 40) {
				typ = []uint8{0, 3, 8, 11, 13, 14, 5}[p.n("ctype", 7)]
				code = uint8(p.n("ccode", 4))
			}
			body := pktcodec.EncodeICMP(typ, code, [4]byte{0, 1, 0, 2}, []byte(strings.Repeat("p", p.n("plen", 48))))
			frame = np.wrap(mac, pktcodec.EncodeIPv4(srcA, our, pktcodec.ProtoICMP, body, opts))
			tag = fmt.Sprintf("icmp[%d/%d]", typ, code)
		case 5: // ARP request or reply (only on Ethernet)
			if s.VPN {
				continue
			}
			op := uint16(1 + p.n("arpop", 2))
			body := pktcodec.EncodeARP(&pktcodec.ARP{HType: 1, PType: pktcodec.EtherTypeIPv4, HLen: 6, PLen: 4, Op: op, SHA: mac[:], SPA: srcA[:], THA: make([]byte, 6), TPA: our[:]})
			frame = append(pktcodec.EthHeader(np.ourMAC, mac, pktcodec.EtherTypeARP), body...)
			tag = fmt.Sprintf("arp[op%d]", op)
		case 6: // UDP datagram
			d := pktcodec.EncodeUDP(srcA, our, uint16(1+p.n("sport", 65535)), uint16(1+p.n("dport", 65535)), []byte("udp-data"))
			frame = np.wrap(mac, pktcodec.EncodeIPv4(srcA, our, pktcodec.ProtoUDP, d, opts))
			tag = "udp"
		case 7: // IPv6 carrying TCP with an interesting source port (Ethernet only)
			if s.VPN {
				continue
			}
			sport := 80
			if len(s.Ports) > 0 && !chunkedRisk {
				sport = portInside(s, p)
			}
			seg := pktcodec.EncodeTCP(srcA, our, uint16(sport), 40000, 1, 1, pktcodec.SYN|pktcodec.ACK, 1024, nil, nil)
			h := make([]byte, 40)
			h[0] = 0x60
			h[4], h[5] = byte(len(seg)>>8), byte(len(seg))
			h[6], h[7] = 6, 64
			h[8], h[23] = 0x20, 1
			h[24], h[39] = 0x20, 2
			frame = append(append(pktcodec.EthHeader(np.ourMAC, mac, pktcodec.EtherTypeIPv6), h...), seg...)
			tag = "ipv6-tcp"
		case 8: // IP-in-IP: the inner datagram has the reply shape, the frame as such does not
			var inner []byte
			if s.Kind == "tcp" {
				sport := 80
				if len(s.Ports) > 0 && !chunkedRisk {
					sport = portInside(s, p)
				}
				seg := pktcodec.EncodeTCP(srcA, our, uint16(sport), 40000, 1, 1, pktcodec.SYN|pktcodec.ACK, 1024, nil, nil)
				inner = pktcodec.EncodeIPv4(srcA, our, pktcodec.ProtoTCP, seg, pktcodec.IPOpts{ID: 7, TTL: 9})
			} else {
				inner = pktcodec.EncodeIPv4(srcA, our, pktcodec.ProtoICMP, pktcodec.EncodeICMP(0, 0, [4]byte{}, []byte("in")), pktcodec.IPOpts{ID: 7, TTL: 9})
			}
			frame = np.wrap(mac, pktcodec.EncodeIPv4(srcA, our, pktcodec.ProtoIPIP, inner, opts))
			tag = "ip-in-ip"
		case 9: // VLAN-tagged reply-shaped frame (Ethernet only)
			if s.VPN {
				continue
			}
			body := pktcodec.EncodeICMP(0, 0, [4]byte{}, []byte("v"))
			dg := pktcodec.EncodeIPv4(srcA, our, pktcodec.ProtoICMP, body, opts)
			frame = append(append(pktcodec.EthHeader(np.ourMAC, mac, pktcodec.EtherTypeVLAN), 0, 5, 8, 0), dg...)
			tag = "vlan"
		}
		if frame == nil {
			continue
		}
		delay := time.Duration(1 + p.n("udelay", int(window)))
		if i == 0 && k.flagIndex >= 0 {
			delay = 1 + delay/4 // certainly before the scan exits
		}
		out = append(out, unsolFrame{delay: delay, data: frame, tag: "unsol-" + tag})
		if k.dupPct > 0 && p.pct("udup", k.dupPct) {
			out = append(out, unsolFrame{delay: out[len(out)-1].delay + time.Duration(p.n("udupd", 5000)), data: frame, tag: "unsol-dup-" + tag})
		}
	}
	return out
}

func buildPacketScenario(p picker, o Opts, k pktKnobs) *pktScenario {
	if k.flagIndex >= 0 && k.flagIndex < 1024 {
		// enumeration: TCP flag set number flagIndex%512 arrives unsolicited during a SYN scan
		// (index < 512) or a FIN scan (index >= 512, which prints the flag letters)
		k.gen.cmds = [][]string{{"tcp", "syn"}}
		if k.flagIndex >= 512 {
			k.gen.cmds = [][]string{{"tcp", "fin"}}
		}
		k.gen.forceMode = "subnet"
		k.gen.chunkedPct = 0
		if k.unsolMax < 1 {
			k.unsolMax = 1
		}
	} else {
		k.flagIndex = -1
	}
	s := genScan(p, k.gen)
	sc := &pktScenario{Spec: s}
	ed := ""
	if len(k.exitDelays) > 0 {
		ed = k.exitDelays[p.n("exitdelay", len(k.exitDelays))]
	}
	s.ExitDelay = ed
	sc.exitDelay = 300 * time.Millisecond
	if ed != "" {
		sc.exitDelay = parseDur(ed)
	}
	sc.ExitDelay = sc.exitDelay.String()
	w := s.world()
	w.NumCPU = p.pick("numcpu", 1, 2, 3, 4, 8, 16, 64)
	sc.World = w
	np := &netPlan{sh: shapeOf(s), salt: uint64(p.n("salt", 1<<30)), iface: "eth0"}
	np.ourMAC = macBytes("02:00:00:00:00:01")
	gw := macBytes(gwMAC)
	np.peerMAC = func(ip uint32) [6]byte {
		if mkCIDR(ipU32("10.0.0.0"), 24).contains(ip) {
			return hostMAC(ip)
		}
		return gw
	}
	np.alivePct = p.pick("alive", 0, 20, 50, 100)
	np.openPct = p.pick("open", 0, 10, 50, 100)
	np.maxDelay = sc.exitDelay
	if np.maxDelay < 2 {
		np.maxDelay = 2
	}
	np.variety = true
	np.burst = p.pct("burst", 25)
	single := len(s.Ports) <= 100
	if k.latePct > 0 && single && p.bool("late") {
		np.latePct = k.latePct
		np.lateMin = sc.exitDelay + 1
	}
	np.dupPct = 0
	if k.dupPct > 0 && p.bool("dup") {
		np.dupPct = k.dupPct
	}
	if k.unsolMax > 0 {
		np.unsol = genUnsolicited(p, s, np, k, sc.exitDelay+sc.exitDelay/2+time.Millisecond)
	}
	sc.plan = np
	sc.AlivePct, sc.OpenPct, sc.MaxDelay, sc.LatePct, sc.DupPct, sc.Unsol = np.alivePct, np.openPct, np.maxDelay.String(), np.latePct, np.dupPct, len(np.unsol)
	seen := map[string]bool{}
	for _, u := range np.unsol {
		if !seen[u.tag] && len(sc.UnsolTags) < 12 {
			seen[u.tag] = true
			sc.UnsolTags = append(sc.UnsolTags, u.tag)
		}
	}
	w.onWrite = np.onWrite
	w.onFilter = np.onFilter
	return sc
}

// oracleDetection: C03 — printed records == records of the reply-shaped frames delivered.
func oracleDetection(out *Out, prop string, sc *pktScenario, cr *CmdResult) {
	s := sc.Spec
	sh := sc.plan.sh
	recs, perrs := parseOutput(sh, s.JSON, cr.Stdout)
	sig := fmt.Sprintf("%s/%s", sh.Name+s.Kind, s.Mode)
	if s.VPN {
		sig += "/vpn"
	}
	if len(perrs) > 0 {
		out.violate(prop+".output-parse", sig, "stdout is not a sequence of complete records: %v", firstN(perrs, 4))
	}
	must, may := expectedFromDeliveries(sh, cr)
	// records whose write to stdout failed (injected EAGAIN) are lost legitimately: exactly those
	if len(cr.FailedOut) > 0 {
		var lost []byte
		for _, f := range cr.FailedOut {
			lost = append(lost, f.Data...)
		}
		lostRecs, _ := parseOutput(sh, s.JSON, lost)
		lm := recMultiset(lostRecs)
		var keep []record
		for _, r := range must {
			if lm[r.String()] > 0 {
				lm[r.String()]--
				may = append(may, r)
				continue
			}
			keep = append(keep, r)
		}
		must = keep
	}
	// with a slow stdout, records of frames that arrived shortly before the exit may still be
	// queued behind stalled writes when the scan is torn down
	if grace := sc.outGrace; grace > 0 {
		closeT := map[int]time.Duration{}
		for _, so := range cr.Socks {
			closeT[so.ID] = so.CloseT
		}
		lateKeys := map[string]int{}
		for _, d := range cr.Dels {
			if rec, ok := sh.replyRecord(d.Data); ok && d.T >= closeT[d.Sock]-grace {
				lateKeys[rec.String()]++
			}
		}
		var keep []record
		for _, r := range must {
			if lateKeys[r.String()] > 0 {
				lateKeys[r.String()]--
				may = append(may, r)
				continue
			}
			keep = append(keep, r)
		}
		must = keep
	}
	missing, phantom := diffRecords(recs, must, may)
	out.Stats["records"] += len(recs)
	out.Stats["reply_shaped_delivered"] += len(must)
	if len(missing) > 0 {
		out.violate(prop+".missed", sig+"/"+classifyRec(missing[0]), "argv %v: reply-shaped frames delivered before exit but not reported: %v", sc.World.Argv, firstN(missing, 5))
	}
	if len(phantom) > 0 {
		out.violate(prop+".phantom", sig+"/"+classifyRec(phantom[0]), "argv %v: records without a reply-shaped frame: %v", sc.World.Argv, firstN(phantom, 5))
	}
}

// classifyRec makes a short structural class of a record string for signatures.
func classifyRec(s string) string {
	i := strings.Index(s, "flags=")
	if i < 0 {
		return "rec"
	}
	f := s[i+6:]
	if j := strings.IndexByte(f, ' '); j >= 0 {
		f = f[:j]
	}
	return "flags=" + f
}

func runPacketScenario(t *testing.T, c simrt.Chooser, o Opts, sc *pktScenario) *CmdResult {
	return runCmd(t, c, sc.World, o.Trace)
}

// injectReadErrors scripts n unknown read errors on the first socket of the scan, spread over the
// first 60 % of the exit delay (a flapping link): each is logged and the receiver pauses briefly;
// replies arriving in the window - between the errors and after them - must still be reported and
// the delay itself must not move.
// The receiver pauses after each such error; how long is the implementation's business (5 ms
// today). The number of errors is capped so that pauses of up to 50 ms each still end inside the
// first 60 % of the delay - the oracles must not depend on the pause being short.
func maxReadErrors(exitDelay time.Duration) int {
	return int(exitDelay * 6 / 10 / (50 * time.Millisecond))
}

func injectReadErrors(sc *pktScenario, n int) {
	gap := sc.exitDelay * 6 / 10 / time.Duration(n+1)
	inner := sc.World.onFilter
	sc.World.onFilter = func(nw *simwire.Net, sk *simwire.Sock) {
		if inner != nil {
			inner(nw, sk)
		}
		if sk.ID != 0 {
			return
		}
		for k := 1; k <= n; k++ {
			k := k
			nw.At(time.Duration(k)*gap+time.Duration(k), func() {
				simrt.Fault("rx-errno")
				sk.ScriptReadErrors(fmt.Errorf("recvmsg: input/output error (injected #%d)", k))
			})
		}
	}
	sc.ReadErrs = n
}
