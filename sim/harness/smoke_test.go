package harness

import (
	"fmt"
	"net"
	"testing"
	"time"

	"github.com/v-byte-cpu/sx/command"

	"verif/sim/simhost"
	"verif/sim/simio"
	"verif/sim/simrt"
	"verif/sim/simwire"
)

func TestSmoke(t *testing.T) {
	ch := simrt.NewSeedChooser(1)
	var io *simio.World
	var wire *simwire.Net
	res := simrt.Execute(t, simrt.Config{Chooser: ch, Trace: true}, func(r *simrt.Run) {
		io = simio.Install(r)
		h := simhost.Install(r)
		h.Ifaces = []simhost.Iface{{Interface: net.Interface{Index: 2, Name: "eth0", MTU: 1500, HardwareAddr: net.HardwareAddr{2, 0, 0, 0, 0, 1}, Flags: net.FlagUp},
			Addrs: []net.Addr{&net.IPNet{IP: net.IPv4(10, 0, 0, 1), Mask: net.CIDRMask(24, 32)}}}}
		wire = simwire.Install(r)
		r.SetNumCPU(3)
	}, func(r *simrt.Run) {
		cmd := command.SimRootCmd("dev")
		cmd.SetArgs([]string{"arp", "--json", "10.0.0.0/29"})
		err := cmd.Execute()
		fmt.Println("execute err:", err)
	})
	fmt.Println("end:", res.End, "steps:", res.Steps, "virt:", res.Virt, "hash:", res.Hash, "maxG", res.MaxG, "strategy", res.Strategy)
	fmt.Println("panics:", res.Panics)
	w, _ := wire.Snapshot()
	fmt.Println("frames:", len(w))
	for _, f := range w {
		fmt.Printf("  %v %x\n", f.T, f.Data)
	}
	fmt.Printf("stdout: %q\n", io.OutBytes())
	_ = time.Second
}
