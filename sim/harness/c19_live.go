package harness

import (
	"context"
	"fmt"
	"strings"
	"testing"
	"time"

	"github.com/v-byte-cpu/sx/pkg/scan"

	"verif/sim/simrt"
)

// C19 — live mode: complete passes repeat until cancelled.
//
// Library level: the real scan.NewLiveRequestGenerator over a simulated delegate (every pass a
// fresh permutation of the target set, some passes failing to start) and a consumer that pauses.
// Command level: `sx arp --live d` on the simulated wire.

type c19Scenario struct {
	Targets   int    `json:"targets"`
	Interval  string `json:"interval"`
	ChanCap   int    `json:"delegate_chan_cap"`
	FailPass  []int  `json:"failing_passes,omitempty"`
	FailFirst bool   `json:"first_pass_fails,omitempty"`
	PauseMax  string `json:"consumer_pause_below,omitempty"`
	GenLatMax string `json:"delegate_latency_below,omitempty"`
	CancelAt  string `json:"cancel_at"`
	StopAtCancel bool `json:"consumer_stops_at_cancel,omitempty"` // like the packet workers: nobody reads the request stream after the cancel
	ByDeadline bool  `json:"scan_ends_by_deadline,omitempty"` // the scan context ends by a deadline of the caller, not by cancel()
	CtxAware  bool   `json:"delegate_checks_context,omitempty"` // the delegate refuses to start a pass on a cancelled context (returns ctx.Err())
}

type c19Pass struct {
	idx    int
	callT  time.Duration
	failed bool
	closeT time.Duration // when the delegate closed the pass channel (0 = not yet)
	closed bool
	order  []int
}

type c19Delegate struct {
	run    *simrt.Run
	sc     *c19Scenario
	fail   map[int]bool
	latMax time.Duration
	passes []*c19Pass
}

func (d *c19Delegate) GenerateRequests(ctx context.Context, _ *scan.Range) (<-chan *scan.Request, error) {
	simrt.Pre("c19.delegate.call")
	ps := &c19Pass{idx: len(d.passes), callT: d.run.Now()}
	d.passes = append(d.passes, ps)
	if d.sc.CtxAware && ctx.Err() != nil {
		ps.failed = true
		simrt.Fault("gen-fail-cancelled")
		return nil, ctx.Err()
	}
	if d.fail[ps.idx] {
		ps.failed = true
		simrt.Fault("gen-fail")
		// (the delegate's own reasons may look like a cancel - its bounded open of the target list
		// timed out, a helper of its own was cancelled - while the scan's context is alive)
		switch ps.idx % 3 {
		case 1:
			return nil, fmt.Errorf("open target list for pass %d: %w", ps.idx, context.DeadlineExceeded)
		case 2:
			return nil, fmt.Errorf("pass %d: lookup helper: %w", ps.idx, context.Canceled)
		}
		return nil, &idErr{"pass", ps.idx}
	}
	// a fresh permutation per pass
	n := d.sc.Targets
	perm := make([]int, n)
	for i := range perm {
		perm[i] = i
	}
	for i := n - 1; i > 0; i-- {
		j := d.run.ChooseWorld("c19.perm", i+1)
		perm[i], perm[j] = perm[j], perm[i]
	}
	ps.order = perm
	out := make(chan *scan.Request, d.sc.ChanCap)
	simrt.Go("c19.delegate", func() {
		defer func() {
			simrt.Close("c19.delegate.close", out)
			ps.closeT = d.run.Now()
			ps.closed = true
		}()
		for _, id := range perm {
			if d.latMax > 1 {
				if l := worldDur("c19.genlat", d.latMax); l > 1 {
					simrt.Sleep("c19.delegate.lat", l)
				}
			}
			r := &scan.Request{DstPort: uint16(id), Meta: map[string]interface{}{"pass": ps.idx}}
			if !simrt.SendCtx("c19.delegate.send", ctx.Done(), out, r) {
				return
			}
		}
	})
	return out, nil
}

type c19Recv struct {
	t         time.Duration
	id        int
	pass      int
	err       string
	cancelled bool // the cancel had already happened when this request was consumed
}

func runC19Lib(t *testing.T, c simrt.Chooser, o Opts) *Out {
	p := picker{c}
	sc := &c19Scenario{}
	sc.Targets = p.pick("ntargets", 0, 1, 2, 3, 8, 30, 120)
	interval := []time.Duration{time.Millisecond, 50 * time.Millisecond, time.Second, 10 * time.Second, time.Minute}[p.n("interval", 5)]
	sc.Interval = interval.String()
	sc.ChanCap = p.pick("cap", 0, 0, 1, 100)
	fail := map[int]bool{}
	if p.pct("genfail", 35) {
		nf := 1 + p.n("nfail", 3)
		for i := 0; i < nf; i++ {
			k := 1 + p.n("failpass", 6)
			if !fail[k] {
				fail[k] = true
				sc.FailPass = append(sc.FailPass, k)
			}
		}
	}
	if p.pct("failfirst", 4) {
		fail[0] = true
		sc.FailFirst = true
	}
	var pauseMax, latMax time.Duration
	if p.pct("pause", 40) {
		pauseMax = p.dur("pausemax", time.Microsecond, interval/2+time.Millisecond)
		sc.PauseMax = pauseMax.String()
	}
	if p.pct("genlat", 30) {
		latMax = p.dur("genlatmax", time.Microsecond, interval/4+time.Millisecond)
		sc.GenLatMax = latMax.String()
	}
	npassTarget := 2 + p.n("npasses", 6)
	cancelAt := time.Duration(npassTarget)*interval + p.dur("canceloff", 0, interval)
	if p.pct("earlycancel", 10) {
		cancelAt = p.dur("cancelearly", 1, interval)
	}
	if p.pct("ctxaware", 35) {
		// a delegate that looks at the context, and a cancel that lands exactly when a pass is due
		sc.CtxAware = true
		if p.pct("boundary", 70) {
			cancelAt = time.Duration(npassTarget) * interval
		}
	}
	sc.ByDeadline = p.pct("bydeadline", 25)
	sc.StopAtCancel = p.pct("stopatcancel", 20)
	sc.CancelAt = cancelAt.String()
	out := &Out{Scenario: sc, Stats: map[string]int{}}

	var del *c19Delegate
	var recvs []c19Recv
	var startErr error
	closedSeen := false
	stoppedAtCancel := false
	var closeT time.Duration
	finished := false
	res := simrt.Execute(t, simrt.Config{Chooser: c, Trace: o.Trace, MaxSteps: 400_000, MaxVirt: cancelAt + 100*time.Hour, MaxStepsNoTime: 60_000}, nil, func(r *simrt.Run) {
		ctx, cancel := context.WithCancel(context.Background())
		defer cancel()
		if sc.ByDeadline {
			var c2 context.CancelFunc
			ctx, c2 = context.WithTimeout(ctx, cancelAt)
			defer c2()
		}
		del = &c19Delegate{run: r, sc: sc, fail: fail, latMax: latMax}
		live := scan.NewLiveRequestGenerator(del, interval)
		ch, err := live.GenerateRequests(ctx, &scan.Range{})
		if err != nil {
			startErr = err
			finished = true
			return
		}
		simrt.Go("c19.canceller", func() {
			simrt.Sleep("c19.cancel.wait", cancelAt)
			simrt.Fault("sigint")
			simrt.Cancel("c19.cancel", cancel)
		})
		for {
			if sc.StopAtCancel && ctx.Err() != nil {
				simrt.Sleep("c19.after-cancel", time.Second)
				stoppedAtCancel = true
				break
			}
			req, ok, canc := simrt.RecvCtx("c19.consume", ctxDoneIf(sc.StopAtCancel, ctx), ch)
			if canc {
				continue
			}
			if !ok {
				closedSeen = true
				closeT = r.Now()
				break
			}
			rc := c19Recv{t: r.Now(), id: int(req.DstPort), pass: -1, cancelled: ctx.Err() != nil}
			if req.Err != nil {
				rc.err = req.Err.Error()
			} else if pi, ok := req.Meta["pass"].(int); ok {
				rc.pass = pi
			}
			recvs = append(recvs, rc)
			if pauseMax > 1 && ctx.Err() == nil {
				if d := worldDur("c19.pause", pauseMax); d > 1 && r.ChooseWorld("c19.dopause", 4) == 0 {
					simrt.RecvCtx("c19.consumer.pause", ctx.Done(), time.After(d)) // a pause that ends at the cancel
				}
			}
		}
		finished = true
	})
	out.Res = &res
	out.Nontrivial = sc.Targets >= 1
	out.Stats["passes"] += len(del.passes)
	out.Key = fmt.Sprintf("%d/%s/%d/%v/%s/%016x", sc.Targets, sc.Interval, sc.ChanCap, sc.FailPass, sc.CancelAt, res.Hash)
	sig := "lib"
	if len(sc.FailPass) > 0 {
		sig = "lib/gen-fail"
	}
	if len(res.Panics) > 0 {
		out.violate("C19.panic", sig+"/"+firstLine(res.Panics[0].Value), "panic in %s: %s\n%s", res.Panics[0].G, res.Panics[0].Value, trimStack(res.Panics[0].Stack))
		return out
	}
	if res.End == simrt.EndBusyLoop {
		out.violate("C19.busy-loop", sig, "more than 60000 scheduling steps without virtual time advancing (at %v); passes started: %d", res.Virt, len(del.passes))
		return out
	}
	if stoppedAtCancel {
		// nobody read the stream after the cancel: one virtual second later the live generator must
		// have ended all the same (it may drop what it was about to hand over, never wait for a reader)
		simrtProbe(&res, "consumer-stopped-at-cancel")
		for _, a := range res.Alive {
			if strings.Contains(a, "pkg/scan/request.go") {
				out.violate("C19.cancel-leak", sig, "a goroutine of the live generator is still alive 1s after the cancel with nobody reading the stream: %s", a)
				break
			}
		}
		return out
	}
	if !finished {
		out.violate("C19.hang", sig+"/"+res.End.String(), "the request stream did not end after the cancel at %v: run ended by %v at %v; parked %v", cancelAt, res.End, res.Virt, firstN(res.Blocked, 8))
		return out
	}
	if sc.FailFirst {
		if startErr == nil {
			out.violate("C19.first-pass-error", sig, "the first pass failed to start but GenerateRequests returned no error")
		}
		return out
	}
	if startErr != nil {
		out.violate("C19.start-error", sig, "unexpected error %v", startErr)
		return out
	}
	// cancellation ends the stream at the cancel instant
	if !closedSeen || closeT != cancelAt {
		out.violate("C19.cancel", sig, "stream closed at %v, cancel at %v", closeT, cancelAt)
	}
	// 1. the history splits into consecutive complete passes
	pi := 0 // index into del.passes of the pass being received
	pos := 0
	nextPass := func() {
		pi++
		pos = 0
		for pi < len(del.passes) && del.passes[pi].failed {
			pi++
		}
	}
	for pi < len(del.passes) && del.passes[pi].failed {
		pi++
	}
	lastRecvOfPass := map[int]time.Duration{}
	errReqs := 0
	for k, rc := range recvs {
		if rc.err != "" {
			if rc.cancelled && (rc.err == context.Canceled.Error() || rc.err == context.DeadlineExceeded.Error()) {
				continue // the delegate's own refusal of the pass that was due at the cancel
			}
			errReqs++
			if !strings.Contains(rc.err, "pass") {
				out.violate("C19.foreign-error", sig, "request %d of the stream carries an error nobody injected: %s", k, rc.err)
			}
			continue
		}
		for pi < len(del.passes) && pos == len(del.passes[pi].order) {
			nextPass()
		}
		if pi >= len(del.passes) {
			out.violate("C19.pass-structure", sig+"/extra", "request %d (target %d of pass %d) arrives after all passes were complete", k, rc.id, rc.pass)
			return out
		}
		ps := del.passes[pi]
		if rc.cancelled && rc.pass == ps.idx {
			// after the cancel the generator may drop requests while it winds down: what still
			// arrives must be later targets of the same pass, in order
			for pos < len(ps.order) && ps.order[pos] != rc.id {
				pos++
			}
			if pos == len(ps.order) {
				out.violate("C19.pass-structure", sig+"/order-after-cancel", "request %d of the stream (target %d of pass %d, consumed after the cancel) is not a later target of that pass", k, rc.id, rc.pass)
				return out
			}
		}
		if rc.pass != ps.idx || rc.id != ps.order[pos] {
			out.violate("C19.pass-structure", sig+"/order", "request %d of the stream is target %d of pass %d, expected target %d of pass %d (position %d of %d): a pass was not forwarded completely, exactly once and in order",
				k, rc.id, rc.pass, ps.order[pos], ps.idx, pos, len(ps.order))
			return out
		}
		pos++
		lastRecvOfPass[ps.idx] = rc.t
	}
	if errReqs > len(sc.FailPass) {
		out.violate("C19.foreign-error", sig+"/count", "%d error requests for %d failed passes", errReqs, len(sc.FailPass))
	}
	// every pass except the one cut by the cancel is complete
	for i, ps := range del.passes {
		if ps.failed {
			continue
		}
		isLastStarted := i == len(del.passes)-1
		got := 0
		if i < pi {
			got = len(ps.order)
		} else if i == pi {
			got = pos
		}
		if got != len(ps.order) && !isLastStarted {
			out.violate("C19.pass-structure", sig+"/incomplete", "pass %d delivered %d of %d targets although pass %d was started after it", ps.idx, got, len(ps.order), ps.idx+1)
			return out
		}
	}
	// 2. spacing: pass i+1 is requested no earlier than interval after pass i ended (delegate closed
	// its channel / failed), and no later than interval after the live generator can have seen the end
	for i := 0; i+1 < len(del.passes); i++ {
		a, b := del.passes[i], del.passes[i+1]
		end := a.closeT
		if a.failed {
			end = a.callT
		} else if !a.closed {
			out.violate("C19.overlap", sig, "pass %d was requested at %v while pass %d had not ended", b.idx, b.callT, a.idx)
			continue
		}
		if b.callT < end+interval {
			out.violate("C19.early-pass", sig, "pass %d was requested at %v, only %v after pass %d ended at %v (interval %v)", b.idx, b.callT, b.callT-end, a.idx, end, interval)
		}
		seen := end
		if lr, ok := lastRecvOfPass[a.idx]; ok && lr > seen {
			seen = lr
		}
		if a.failed {
			// liveness after a pass that failed to start: a new attempt within two intervals
			if b.callT > end+2*interval {
				out.violate("C19.late-pass", sig+"/after-fail", "after pass %d failed to start at %v the next attempt came only at %v (interval %v)", a.idx, end, b.callT, interval)
			}
		} else if b.callT > seen+interval {
			out.violate("C19.late-pass", sig, "pass %d was requested at %v; pass %d ended at %v and its last request was consumed at %v (interval %v)", b.idx, b.callT, a.idx, end, lastRecvOfPass[a.idx], interval)
		}
	}
	// 3. bounded liveness: passes keep coming until the cancel
	if n := len(del.passes); n > 0 {
		last := del.passes[n-1]
		end := last.callT
		if last.closed {
			end = last.closeT
			if lr, ok := lastRecvOfPass[last.idx]; ok && lr > end {
				end = lr
			}
		}
		bound := end + interval
		if last.failed {
			bound = end + 2*interval
		}
		// the generator can only see the end of a pass after the consumer has taken its last request
		consumed := last.failed || pi > n-1 || (pi == n-1 && pos == len(last.order))
		if (last.closed || last.failed) && consumed && bound < cancelAt {
			what := "ended"
			if last.failed {
				what = "failed to start"
			}
			out.violate("C19.stalled", sig+"/"+what, "pass %d %s at %v and no further pass was requested before the cancel at %v (interval %v): live mode stopped rescanning", last.idx, what, end, cancelAt, interval)
		}
	}
	if len(del.passes) >= 3 {
		simrtProbe(&res, "three-passes")
	}
	if pos > 0 && pi < len(del.passes) && pos < len(del.passes[pi].order) {
		simrtProbe(&res, "cancel-inside-pass")
	}
	return out
}

// ---- command level: sx arp --live -----------------------------------------------------------

type c19CmdScenario struct {
	*pktScenario
	Interval string `json:"live_interval"`
	CancelAt string `json:"sigint_at"`
}

func runC19Cmd(t *testing.T, c simrt.Chooser, o Opts) *Out {
	p := picker{c}
	k := pktKnobs{gen: genKnobs{maxProbes: 64, cmds: [][]string{{"arp"}}, allowExcl: true}, unsolMax: 3, flagIndex: -1, exitDelays: []string{"", "1ms", "300ms", "2s"}}
	sc := buildPacketScenario(p, o, k)
	s := sc.Spec
	interval := []time.Duration{time.Millisecond, 20 * time.Millisecond, 500 * time.Millisecond, 3 * time.Second, time.Minute}[p.n("interval", 5)]
	// --live goes before the subnet argument
	argv := sc.World.Argv
	sc.World.Argv = append(append(append([]string{}, argv[:len(argv)-1]...), "--live", interval.String()), argv[len(argv)-1])
	sc.World.maxSteps = 3_000_000 // many passes
	npass := 2 + p.n("npasses", 5)
	cancelAt := time.Duration(npass)*interval + p.dur("canceloff", 0, interval)
	sc.World.SigintAt = cancelAt.String()
	stalls := false
	if p.pct("stall", 20) {
		stalls = true
		sc.World.NicStallEvery = 1 + p.n("stallevery", 5)
		sc.World.NicStallFor = p.dur("stallfor", time.Microsecond, interval/8+time.Microsecond).String()
	}
	sc.World.maxVirt = cancelAt + 50*time.Hour
	cs := &c19CmdScenario{pktScenario: sc, Interval: interval.String(), CancelAt: cancelAt.String()}
	out := &Out{Scenario: cs, Stats: map[string]int{}}
	cr := runPacketScenario(t, c, o, sc)
	out.Res = &cr.Res
	want := s.expected()
	ntargets := len(want)
	out.Nontrivial = ntargets >= 1
	out.Key = fmt.Sprintf("live/%s/%v/%s/%s/%016x", s.SubnetArg, s.Exclude, cs.Interval, cs.CancelAt, cr.Res.Hash)
	if crashOrHang(out, "C19", cr) {
		return out
	}
	sig := "cmd"
	if cr.ExecErr != "" {
		out.violate("C19.exec-error", sig, "valid specification refused: %s (argv %v)", cr.ExecErr, sc.World.Argv)
		return out
	}
	// the command ends at the cancel instant (no exit-delay wait after Ctrl-C, no stall outstanding > one stall)
	bound := cancelAt + parseDur(sc.World.NicStallFor)
	if cr.ReturnT < cancelAt {
		out.violate("C19.ended-early", sig, "argv %v: live scan returned at %v before the Ctrl-C at %v", sc.World.Argv, cr.ReturnT, cancelAt)
		return out
	}
	if cr.ReturnT > bound {
		out.violate("C19.cancel", sig, "argv %v: returned at %v, Ctrl-C at %v", sc.World.Argv, cr.ReturnT, cancelAt)
	}
	if ntargets == 0 {
		return out
	}
	// split the wire log into consecutive passes
	type passRec struct {
		first, last time.Duration
		n           int
	}
	var passes []passRec
	seen := map[probeKey]int{}
	total := map[probeKey]int{}
	cur := passRec{}
	for i, f := range cr.Wire {
		kx, _, err := probeOf("arp", f.Data, false)
		if err != nil {
			out.violate("C19.undecodable", sig, "frame %d: %v", i, err)
			return out
		}
		if want[kx] == 0 {
			out.violate("C19.pass-structure", sig+"/outside", "argv %v: frame %d probes %v which is not a target", sc.World.Argv, i, kx)
			return out
		}
		if cur.n == 0 {
			cur.first = f.T
		}
		total[kx]++
		if stalls {
			// With a stalling NIC the packet-generator workers run at different speeds: a frame of pass
			// k+1 may reach the wire before the last frames of pass k (no order is promised across the
			// parallel workers), so the wire log cannot be cut into passes by position; the per-target
			// totals are compared after the loop instead.
			continue
		}
		seen[kx]++
		if seen[kx] > 1 {
			out.violate("C19.pass-structure", sig+"/dup", "argv %v: %v probed twice within pass %d (frame %d at %v; pass started at %v, %d of %d targets done)", sc.World.Argv, kx, len(passes), i, f.T, cur.first, cur.n, ntargets)
			return out
		}
		cur.n++
		cur.last = f.T
		if cur.n == ntargets {
			passes = append(passes, cur)
			cur = passRec{}
			seen = map[probeKey]int{}
		}
	}
	if stalls {
		lo, hi := -1, 0
		var loK, hiK probeKey
		for _, k := range sortedProbeKeys(want) {
			n := total[k]
			if lo < 0 || n < lo {
				lo, loK = n, k
			}
			if n > hi {
				hi, hiK = n, k
			}
		}
		// every pass probes every target once: totals differ by the pass cut by the Ctrl-C and by
		// one pass of overtaking at most
		if hi-lo > 2 {
			out.violate("C19.pass-structure", sig+"/uneven", "argv %v: %v was probed %d times, %v %d times until the Ctrl-C: passes do not probe every target exactly once", sc.World.Argv, hiK, hi, loK, lo)
		}
		out.Stats["passes"] += lo
		if lo >= 3 {
			simrtProbe(&cr.Res, "three-passes")
		}
	}
	out.Stats["passes"] += len(passes)
	// an incomplete pass is only allowed as the one cut by the cancel (its frames were still flowing at cancel time)
	if cur.n > 0 && cur.last < cancelAt && !stalls {
		// all frames of a pass leave at the same virtual instant when nothing stalls
		out.violate("C19.pass-structure", sig+"/incomplete", "argv %v: the last pass sent %d of %d probes (last at %v) although the Ctrl-C came only at %v", sc.World.Argv, cur.n, ntargets, cur.last, cancelAt)
	}
	for i := 0; i+1 < len(passes); i++ {
		gap := passes[i+1].first - passes[i].last
		if !stalls && gap < interval {
			out.violate("C19.early-pass", sig, "argv %v: pass %d started at %v, %v after pass %d ended at %v (interval %v)", sc.World.Argv, i+1, passes[i+1].first, gap, i, passes[i].last, interval)
		}
		if !stalls && gap > interval {
			out.violate("C19.late-pass", sig, "argv %v: pass %d started %v after pass %d ended (interval %v)", sc.World.Argv, i+1, gap, i, interval)
		}
	}
	// bounded liveness: without stalls a pass takes no virtual time, so passes start at 0, d, 2d, ...
	if !stalls {
		wantPasses := int(cancelAt/interval) + 1
		if cancelAt%interval == 0 {
			wantPasses-- // a pass due exactly at the cancel instant may or may not start
		}
		got := len(passes)
		if cur.n > 0 {
			got++
		}
		if got < wantPasses {
			out.violate("C19.stalled", sig, "argv %v: %d passes until the Ctrl-C at %v, expected at least %d (interval %v)", sc.World.Argv, got, cancelAt, wantPasses, interval)
		}
	}
	if len(passes) >= 3 {
		simrtProbe(&cr.Res, "three-passes")
	}
	// de-duplicated output: every responding host exactly once (C14's de-duplication, observed here too)
	recs, perrs := parseOutput(sc.plan.sh, s.JSON, cr.Stdout)
	if len(perrs) > 0 {
		out.violate("C19.output", sig, "stdout: %v", firstN(perrs, 3))
	}
	cnt := map[string]int{}
	for _, r := range recs {
		cnt[r.IP]++
		if cnt[r.IP] == 2 {
			out.violate("C19.dedup", sig, "argv %v: host %s printed more than once in live mode", sc.World.Argv, r.IP)
			break
		}
	}
	return out
}

func init() {
	register(&Suite{Name: "C19-live", Prop: "C19", Doc: "real live request generator over a simulated delegate (permuted passes, failing passes, pausing consumer, cancel)", Run: runC19Lib})
	register(&Suite{Name: "C19-livecmd", Prop: "C19", Doc: "sx arp --live on the simulated wire: frames split into complete passes spaced by the interval until Ctrl-C", Run: runC19Cmd})
}
