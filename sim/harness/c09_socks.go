package harness

import (
	"context"
	"fmt"
	"io"
	"net"
	"testing"
	"time"

	"github.com/v-byte-cpu/sx/pkg/scan"
	"github.com/v-byte-cpu/sx/pkg/scan/socks5"

	"verif/sim/simnet"
	"verif/sim/simrt"
)

// C09 (library level) — the real socks5.Scanner.Scan against one scripted endpoint.

// server script steps
type c09Step struct {
	Op    string `json:"op"` // read | wait | send | close | reset | stall | flood
	N     int    `json:"n,omitempty"`
	Wait  string `json:"wait,omitempty"`
	Bytes []byte `json:"bytes,omitempty"`
}

type c09Scenario struct {
	Mode        string    `json:"connect"` // accept | refuse | blackhole
	ConnectTime string    `json:"connect_time"`
	Script      []c09Step `json:"server_script"`
	DialTimeout string    `json:"dial_timeout"`
	DataTimeout string    `json:"data_timeout"`
	CancelAt    string    `json:"cancel_at,omitempty"`
	CancelStep  int       `json:"cancel_at_step,omitempty"` // Ctrl-C right before this scheduling step (lands between two operations of the probe)
	Reply       []byte    `json:"reply,omitempty"`
	FarDeadline bool      `json:"context_has_far_deadline,omitempty"`
	Decoy       string    `json:"other_scanner_timeouts,omitempty"` // a second scanner with these timeouts is created after the one under test
}

var c09Timeouts = []time.Duration{50 * time.Millisecond, 2 * time.Second, 5 * time.Second}

func c09Generate(p picker, o Opts) *c09Scenario {
	sc := &c09Scenario{Mode: "accept"}
	dial := c09Timeouts[p.n("dialto", 3)]
	data := c09Timeouts[p.n("datato", 3)]
	sc.DialTimeout, sc.DataTimeout = dial.String(), data.String()
	sc.ConnectTime = p.dur("conn", time.Microsecond, 20*time.Millisecond).String()
	// enumeration: every two-byte reply, delivered in one segment after reading the greeting
	if o.Index < 65536 && (o.Tier == "thorough" || o.Index < 2048) {
		v := o.Index
		if o.Tier != "thorough" {
			// quick: a spread of 2048 replies always containing 05 00 and its neighbours
			v = (o.Index * 32) % 65536
			if o.Index < 8 {
				v = []int{0x0500, 0x0501, 0x0400, 0x05ff, 0x0000, 0x0502, 0x0600, 0x0005}[o.Index]
			}
		}
		sc.Reply = []byte{byte(v >> 8), byte(v)}
		sc.Script = []c09Step{{Op: "read", N: 3}, {Op: "wait", Wait: p.dur("lat", 1, data/2).String()}, {Op: "send", Bytes: sc.Reply}, {Op: "stall"}}
		return sc
	}
	switch p.n("mode", 8) {
	case 0:
		sc.Mode = "refuse"
		return sc
	case 1:
		sc.Mode = "blackhole"
		return sc
	case 2:
		sc.ConnectTime = p.dur("slowconn", dial/2, dial*2).String() // around the dial timeout
	}
	// fault at a protocol step
	reply := []byte{5, 0}
	if p.pct("otherreply", 50) {
		reply = []byte{byte(p.n("r0", 256)), byte(p.n("r1", 256))}
	}
	sc.Reply = reply
	lat := func(label string) string {
		// mostly well inside the timeout, sometimes around it
		if p.pct(label+".near", 20) {
			return p.dur(label, data-data/4, data+data/4).String()
		}
		return p.dur(label, 1, data/3).String()
	}
	readN := p.pick("readn", 0, 1, 2, 3, 3, 3)
	if readN > 0 {
		sc.Script = append(sc.Script, c09Step{Op: "read", N: readN})
	}
	switch p.n("fault", 11) {
	case 10: // reply, then the peer keeps talking for ever (one byte every third of the data timeout)
		sc.Script = append(sc.Script, c09Step{Op: "wait", Wait: lat("l1")}, c09Step{Op: "send", Bytes: reply}, c09Step{Op: "chatter", Wait: (data / 3).String(), N: 400})
	case 0:
		sc.Script = append(sc.Script, c09Step{Op: "close"})
	case 1:
		sc.Script = append(sc.Script, c09Step{Op: "reset"})
	case 2:
		sc.Script = append(sc.Script, c09Step{Op: "stall"})
	case 3: // one byte, then stall / close
		sc.Script = append(sc.Script, c09Step{Op: "wait", Wait: lat("l1")}, c09Step{Op: "send", Bytes: reply[:1]}, c09Step{Op: []string{"stall", "close", "reset"}[p.n("after1", 3)]})
	case 4: // split reply with a pause
		sc.Script = append(sc.Script, c09Step{Op: "wait", Wait: lat("l1")}, c09Step{Op: "send", Bytes: reply[:1]}, c09Step{Op: "wait", Wait: lat("l2")}, c09Step{Op: "send", Bytes: reply[1:]}, c09Step{Op: "stall"})
	case 5: // extra bytes
		sc.Script = append(sc.Script, c09Step{Op: "wait", Wait: lat("l1")}, c09Step{Op: "send", Bytes: append(append([]byte{}, reply...), 1, 2, 3, 4)}, c09Step{Op: "close"})
	case 6: // flood
		sc.Script = append(sc.Script, c09Step{Op: "flood", N: 1 + p.n("floodn", 200)})
	case 7: // reply then immediate close / reset
		sc.Script = append(sc.Script, c09Step{Op: "send", Bytes: reply}, c09Step{Op: []string{"close", "reset"}[p.n("afterr", 2)]})
	default: // plain reply after a latency
		sc.Script = append(sc.Script, c09Step{Op: "wait", Wait: lat("l1")}, c09Step{Op: "send", Bytes: reply}, c09Step{Op: "stall"})
	}
	sc.FarDeadline = p.pct("fardeadline", 30)
	if p.pct("decoy", 30) {
		sc.Decoy = []time.Duration{dial * 20, dial / 20, time.Hour}[p.n("decoyv", 3)].String()
	}
	if p.pct("cancel", 25) {
		if p.bool("cancelbystep") {
			// between any two scheduling points of the probe: after the dial, between write and read, ...
			sc.CancelStep = 1 + p.n("cancelstep", 30)
		} else {
			sc.CancelAt = p.dur("cancelat", 1, dial+2*data).String()
		}
	}
	return sc
}

type c09Server struct {
	received []byte
	sentAt   []time.Duration // virtual time of every byte sent
	sent     []byte
	resetAt  time.Duration
	closedAt time.Duration
	accepted bool
	done     bool
}

func runC09(t *testing.T, c simrt.Chooser, o Opts) *Out {
	p := picker{c}
	sc := c09Generate(p, o)
	out := &Out{Scenario: sc, Stats: map[string]int{}}
	dialTO, dataTO := parseDur(sc.DialTimeout), parseDur(sc.DataTimeout)
	srv := &c09Server{}
	const target = "198.51.100.7:1080"
	var result scan.Result
	var scanErr error
	var dur time.Duration
	returned := false
	var cancelT time.Duration
	cancelFired := false
	res := simrt.Execute(t, simrt.Config{Chooser: c, Trace: o.Trace, MaxSteps: 200000, SigintAt: parseDur(sc.CancelAt), SigintStep: sc.CancelStep}, func(r *simrt.Run) {
		n := simnet.Install(r)
		s := &simnet.Server{ConnectTime: parseDur(sc.ConnectTime)}
		switch sc.Mode {
		case "refuse":
			s.Mode = simnet.Refuse
		case "blackhole":
			s.Mode = simnet.Blackhole
		default:
			s.Mode = simnet.Accept
		}
		s.Handler = func(conn *simnet.TCPConn, rec *simnet.ConnRec) {
			srv.accepted = true
			defer func() { srv.done = true }()
			for _, st := range sc.Script {
				switch st.Op {
				case "read":
					buf := make([]byte, 1)
					for i := 0; i < st.N; i++ {
						k, err := conn.Read(buf)
						srv.received = append(srv.received, buf[:k]...)
						if err != nil {
							conn.Close()
							return
						}
					}
				case "wait":
					simrt.Sleep("c09.srv.wait", parseDur(st.Wait))
				case "send":
					if conn.PeerClosed() {
						conn.Close()
						return
					}
					for range st.Bytes {
						srv.sentAt = append(srv.sentAt, r.Now())
					}
					srv.sent = append(srv.sent, st.Bytes...)
					if _, err := conn.Write(st.Bytes); err != nil {
						conn.Close()
						return
					}
				case "close":
					srv.closedAt = r.Now()
					conn.Close()
					return
				case "reset":
					srv.resetAt = r.Now()
					conn.Reset()
					return
				case "flood":
					junk := make([]byte, 1024)
					for i := range junk {
						junk[i] = 0x41
					}
					for i := 0; i < st.N; i++ {
						if len(srv.sent) < 2 {
							for j := len(srv.sent); j < 2; j++ {
								srv.sentAt = append(srv.sentAt, r.Now())
								srv.sent = append(srv.sent, 0x41)
							}
						}
						if _, err := conn.Write(junk); err != nil {
							conn.Close()
							return
						}
					}
				case "chatter":
					simrtFault(out, "tcp-chatter")
					for i := 0; i < st.N; i++ {
						simrt.Sleep("c09.srv.chatter", parseDur(st.Wait))
						if _, err := conn.Write([]byte{0x2e}); err != nil {
							conn.Close()
							return
						}
					}
				case "stall":
					buf := make([]byte, 64)
					for {
						k, err := conn.Read(buf)
						srv.received = append(srv.received, buf[:k]...)
						if err != nil {
							conn.Close()
							return
						}
					}
				}
			}
			// script over: keep the connection open until the client leaves
			buf := make([]byte, 64)
			for {
				k, err := conn.Read(buf)
				srv.received = append(srv.received, buf[:k]...)
				if err != nil {
					conn.Close()
					return
				}
			}
		}
		n.Servers[target] = s
	}, func(r *simrt.Run) {
		ctx, cancel := context.WithCancel(context.Background())
		defer cancel()
		if sc.FarDeadline {
			// the caller's context carries a deadline of its own, far beyond this probe
			var c2 context.CancelFunc
			ctx, c2 = context.WithTimeout(ctx, time.Hour)
			defer c2()
		}
		r.RegisterSignal(func() { cancelT = r.Now(); cancelFired = true; cancel() })
		scanner := socks5.NewScanner(socks5.WithDialTimeout(dialTO), socks5.WithDataTimeout(dataTO))
		if sc.Decoy != "" {
			// another scanner of the same process, configured differently: scanners do not share settings
			d := parseDur(sc.Decoy)
			_ = socks5.NewScanner(socks5.WithDialTimeout(d), socks5.WithDataTimeout(d))
		}
		start := r.Now()
		result, scanErr = scanner.Scan(ctx, &scan.Request{DstIP: net.IPv4(198, 51, 100, 7), DstPort: 1080})
		dur = r.Now() - start
		returned = true
		// give the watchdog goroutine and the server the chance to finish
		simrt.Sleep("c09.settle", time.Millisecond)
	})
	out.Res = &res
	out.Nontrivial = true
	out.Key = fmt.Sprintf("%s/%v/%s/%s/%s/%d/%016x", sc.Mode, sc.Script, sc.DialTimeout, sc.DataTimeout, sc.CancelAt, sc.CancelStep, res.Hash)
	sig := sc.Mode
	if len(sc.Script) > 0 {
		sig += "/" + sc.Script[len(sc.Script)-1].Op
	}
	if len(res.Panics) > 0 {
		out.violate("C09.panic", firstLine(res.Panics[0].Value), "panic in %s: %s\n%s", res.Panics[0].G, res.Panics[0].Value, trimStack(res.Panics[0].Stack))
		return out
	}
	if !returned {
		out.violate("C09.hang", sig, "Scan did not return: %v at %v; parked %v", res.End, res.Virt, firstN(res.Blocked, 10))
		return out
	}
	cancelled := cancelFired && cancelT <= dur
	// time bound: connect timeout + one write + at most two reads
	if limit := dialTO + 3*dataTO; dur > limit {
		out.violate("C09.time-bound", sig, "Scan took %v, bound is dial %v + 3 x data %v = %v", dur, dialTO, dataTO, limit)
	}
	if cancelled {
		if late := dur - cancelT; late > time.Millisecond {
			out.violate("C09.cancel-slow", sig, "cancelled at %v, Scan returned %v later", cancelT, late)
		}
	}
	// reference verdict: reported iff connected and the first two bytes the server sent arrived
	// within the budget and are 05 00
	connected := sc.Mode == "accept" && parseDur(sc.ConnectTime) < dialTO
	positive := false
	ambiguous := false
	if connected && len(srv.sent) >= 2 && srv.sent[0] == 5 && srv.sent[1] == 0 {
		// timing: byte 0 within dataTO of the read start (= connect + greeting write, zero time),
		// byte 1 within dataTO of byte 0's arrival
		t0 := parseDur(sc.ConnectTime)
		b0, b1 := srv.sentAt[0], srv.sentAt[1]
		switch {
		case b0-t0 < dataTO && b1-b0 < dataTO:
			positive = true
		case b0-t0 == dataTO || b1-b0 == dataTO:
			ambiguous = true
		}
		if b0 == b1 && b0-t0 < dataTO {
			positive = true
		}
	}
	if cancelled {
		ambiguous = true // a cancel may preempt the verdict
	}
	if srv.resetAt > 0 && positive {
		ambiguous = true // a reset may or may not discard the bytes that were already queued
	}
	switch {
	case result != nil && !positive && !ambiguous:
		out.violate("C09.false-positive", sig, "reported as SOCKS5 proxy, but the server sent % x (connected=%v, sent at %v)", srv.sent, connected, srv.sentAt)
	case result == nil && positive && !ambiguous:
		out.violate("C09.false-negative", sig, "server answered 05 00 in time (sent at %v, connect %s, data timeout %v) but nothing was reported (err %v)", srv.sentAt, sc.ConnectTime, dataTO, scanErr)
	}
	if result != nil {
		if scanErr != nil {
			out.violate("C09.result-and-error", sig, "both a result and an error: %v", scanErr)
		}
		b, _ := result.MarshalJSON()
		rec, err := parseSocksJSON(string(b))
		if err != nil || rec.IP != "198.51.100.7" || rec.Port != 1080 {
			out.violate("C09.record", sig, "record %s does not carry the probed address (err %v)", b, err)
		}
	}
	// greeting: whatever the server read is a prefix of 05 01 00, and nothing else follows
	want := []byte{5, 1, 0}
	if len(srv.received) > 3 || string(srv.received) != string(want[:len(srv.received)]) {
		out.violate("C09.greeting", sig, "server received % x, the greeting is 05 01 00", srv.received)
	}
	// nothing of the call survives it: the watchdog ended and the connection is closed
	for _, b := range res.Blocked {
		if containsStr(b, "socks5.go") {
			out.violate("C09.leak", sig, "a goroutine of the probe is still alive after Scan returned: %s", b)
			break
		}
	}
	_ = io.EOF
	return out
}

func init() {
	register(&Suite{Name: "C09-socksprobe", Prop: "C09", Doc: "real socks5.Scanner.Scan vs one scripted endpoint: all two-byte replies, faults at each protocol step, timeouts, cancel", Run: runC09,
		Enum: func(tier string) int {
			if tier == "thorough" {
				return 65536
			}
			return 2048
		}})
}
