package harness

import (
	"encoding/json"
	"fmt"
	"net"
	"sort"
	"strings"
	"testing"
	"time"

	"github.com/anishathalye/porcupine"
	"github.com/v-byte-cpu/sx/pkg/scan/arp"

	"verif/sim/pktcodec"
	"verif/sim/simrt"
	"verif/sim/simwire"
)

// C11 — ARP output is a valid ARP cache; probes use the right destination MAC.
//
// Composition (command level): `sx arp --json` runs against generated ARP speakers; its stdout is
// fed unchanged as the ARP cache (stdin or --arp-cache) of an IP-level scan; the Ethernet
// destination of every probe is compared with the cache the oracle derives from the printed lines.
// Concurrency (library level): clients call Put / Get / Delete on one real arp.Cache; the history
// is checked with porcupine against a map.

type c11Scenario struct {
	Variant   string     `json:"variant"` // compose | handmade
	ArpArgv   []string   `json:"arp_argv,omitempty"`
	ArpLines  int        `json:"arp_output_lines"`
	CacheHead []string   `json:"cache_first_lines,omitempty"`
	Gateway   string     `json:"gateway_mac_source"` // flag | cache | none
	Damage    string     `json:"damaged_cache,omitempty"`
	Spec      *scanSpec  `json:"spec"`
	World     *WorldSpec `json:"world"`
	OddFrames []string   `json:"odd_arp_frames,omitempty"`
	BadTargetLines int   `json:"bad_target_lines,omitempty"`
	PositionalHost string `json:"host_argument_next_to_file,omitempty"`
}

var c11SpecialMACs = [][6]byte{
	{0xff, 0xff, 0xff, 0xff, 0xff, 0xff},
	{0, 0, 0, 0, 0, 0},
	{0x01, 0x00, 0x5e, 0x00, 0x00, 0xfb},
	{0x00, 0x50, 0x56, 0xc0, 0x00, 0x08}, // a vendor prefix known to the MAC database
	{0xfe, 0xff, 0xff, 0xff, 0xff, 0xff},
}

type c11Plan struct {
	salt      uint64
	alivePct  int
	changePct int
	maxDelay  time.Duration
	force     map[uint32]bool // address -> alive / dead override
	burst     bool
	unsol     []unsolFrame
}

func (pl *c11Plan) alive(ip uint32) bool {
	if v, ok := pl.force[ip]; ok {
		return v
	}
	return int(mix64(pl.salt, uint64(ip))%100) < pl.alivePct
}

func (pl *c11Plan) macOf(ip uint32, gen int) [6]byte {
	v := mix64(pl.salt^0x99, uint64(ip)<<4|uint64(gen)) % 12
	if v >= 7 {
		return c11SpecialMACs[v-7]
	}
	m := hostMAC(ip)
	m[1] = byte(0x11 + gen)
	return m
}

func (pl *c11Plan) onWrite(n *simwire.Net, f *simwire.Frame) {
	p, err := pktcodec.Decode(f.Data, true)
	if err != nil || p.ARP == nil || len(p.ARP.TPA) != 4 {
		return
	}
	var t [4]byte
	copy(t[:], p.ARP.TPA)
	ip := pktcodec.U32(t)
	if !pl.alive(ip) {
		return
	}
	r := runChooser{}
	var our [6]byte
	copy(our[:], p.ARP.SHA)
	send := func(gen int, d time.Duration) {
		mac := pl.macOf(ip, gen)
		body := pktcodec.EncodeARP(&pktcodec.ARP{HType: 1, PType: pktcodec.EtherTypeIPv4, HLen: 6, PLen: 4, Op: 2, SHA: mac[:], SPA: t[:], THA: p.ARP.SHA, TPA: p.ARP.SPA})
		n.Inject(d, f.Iface, append(pktcodec.EthHeader(our, mac, pktcodec.EtherTypeARP), body...), fmt.Sprintf("arp-reply-gen%d", gen))
	}
	d := time.Duration(1 + r.n("lat", int(pl.maxDelay)-1))
	if pl.burst {
		// replies arrive in bursts: several records are in the result buffers together
		q := pl.maxDelay/5 + 1
		d = d/q*q + 1
	}
	send(0, d)
	if int(mix64(pl.salt^0x33, uint64(ip))%100) < pl.changePct {
		// the host answers again with another hardware address (moved / spoofed): the last line wins
		send(1, d+time.Duration(1+r.n("lat2", int(pl.maxDelay-d))))
	}
}

func (pl *c11Plan) onFilter(n *simwire.Net, s *simwire.Sock) {
	if s.ID != 0 {
		return
	}
	for _, u := range pl.unsol {
		n.Inject(u.delay, s.Iface, u.data, u.tag)
	}
}

// c11OddARP builds unsolicited ARP frames a hostile or odd neighbour can send: special hardware
// addresses, requests instead of replies, and address sizes other than 6/4 laid out so that the
// bytes the capture filter looks at fall inside the scanned subnet.
func c11OddARP(p picker, sub cidr, our [6]byte, window time.Duration) []unsolFrame {
	n := p.n("nodd", 5)
	var out []unsolFrame
	for i := 0; i < n; i++ {
		src := sub.Base + uint32(p.n("oddsrc", sub.size()))
		srcA := pktcodec.IP4(src)
		mac := c11SpecialMACs[p.n("oddmac", len(c11SpecialMACs))]
		a := &pktcodec.ARP{HType: 1, PType: pktcodec.EtherTypeIPv4, HLen: 6, PLen: 4, Op: uint16(1 + p.n("op", 2)), SHA: mac[:], SPA: srcA[:], THA: make([]byte, 6), TPA: []byte{10, 0, 0, 1}}
		tag := fmt.Sprintf("odd-arp[op%d mac=%s]", a.Op, pktcodec.MACString(mac[:]))
		fix := false
		switch p.n("oddshape", 8) {
		case 0: // hardware size 1..5, 7, 8
			a.HLen = uint8([]int{1, 2, 3, 4, 5, 7, 8}[p.n("hlen", 7)])
			a.SHA = []byte{0xaa, 0xbb, 0xcc, 0xdd, 0xee, 0xf0, 0x0d, 0x0e}[:a.HLen]
			a.THA = make([]byte, a.HLen)
			tag, fix = fmt.Sprintf("odd-arp[hlen=%d]", a.HLen), true
		case 1: // protocol size 1..3, 5, 16
			a.PLen = uint8([]int{1, 2, 3, 5, 16}[p.n("plen", 5)])
			a.SPA = append(append([]byte{}, srcA[:]...), make([]byte, 12)...)[:a.PLen]
			a.TPA = make([]byte, a.PLen)
			tag, fix = fmt.Sprintf("odd-arp[plen=%d]", a.PLen), true
		case 2: // zero sizes
			a.HLen, a.PLen, a.SHA, a.SPA, a.THA, a.TPA = 0, 0, nil, nil, nil, nil
			tag, fix = "odd-arp[hlen=0 plen=0]", true
		case 3: // other hardware type with 6-byte addresses
			a.HType = uint16(6 + p.n("htype", 20))
			tag = fmt.Sprintf("odd-arp[htype=%d]", a.HType)
		}
		body := pktcodec.EncodeARP(a)
		frame := append(pktcodec.EthHeader(our, mac, pktcodec.EtherTypeARP), body...)
		for len(frame) < 60 {
			frame = append(frame, 0)
		}
		if fix {
			copy(frame[28:32], srcA[:]) // what `arp src net` inspects
		}
		out = append(out, unsolFrame{delay: time.Duration(1 + p.n("odddelay", int(window))), data: frame, tag: tag})
	}
	return out
}

// c11CacheModel reads cache lines the way the property states it: one JSON object per line,
// ip -> mac, the last line for an address wins.  ok=false: a line is not such an object.
func c11CacheModel(data string) (m map[uint32]string, bad []string) {
	m = map[uint32]string{}
	lines, _ := stdoutLines([]byte(data))
	for i, l := range lines {
		var o map[string]interface{}
		if err := json.Unmarshal([]byte(l), &o); err != nil {
			bad = append(bad, fmt.Sprintf("line %d is not a JSON object: %q", i, l))
			continue
		}
		ips, _ := o["ip"].(string)
		macs, _ := o["mac"].(string)
		ip := net.ParseIP(ips)
		hw, err := net.ParseMAC(macs)
		if ip == nil || ip.To4() == nil {
			bad = append(bad, fmt.Sprintf("line %d: %q is not an IPv4 address", i, ips))
			continue
		}
		if err != nil || len(hw) != 6 {
			bad = append(bad, fmt.Sprintf("line %d: %q is not a 6-byte hardware address", i, macs))
			continue
		}
		m[ipU32(ip.To4().String())] = hw.String()
	}
	return
}

func runC11Compose(t *testing.T, c simrt.Chooser, o Opts) *Out {
	p := picker{c}
	sc := &c11Scenario{Variant: "compose"}
	out := &Out{Scenario: sc, Stats: map[string]int{}}
	if p.pct("handmade", 25) {
		sc.Variant = "handmade"
	}
	gwMode := []string{"flag", "cache", "none"}[p.n("gwmode", 3)]
	sc.Gateway = gwMode
	gwA := ipU32(gwIP)
	var cacheData string
	var hash1 uint64
	damaged := false
	var damagedIP uint32
	var cacheFault *FileFault
	arpSub := mkCIDR(ipU32("10.0.0.0"), 24)
	if sc.Variant == "compose" {
		// ---- first command: the ARP scan -----------------------------------------------------
		bits := 24 + p.n("arpbits", 5)
		arpSub = mkCIDR(ipU32("10.0.0.0")+uint32(p.n("arpoff", 256)), bits)
		if gwMode == "cache" {
			arpSub = mkCIDR(gwA, bits) // the gateway must be part of the ARP scan to end up in the cache
		}
		as := &scanSpec{Cmd: []string{"arp"}, Kind: "arp", Mode: "subnet", Subnet: arpSub, SubnetArg: arpSub.String(), JSON: true}
		live := p.pct("live", 15)
		aw := as.world()
		pl := &c11Plan{salt: uint64(p.n("salt", 1<<30)), alivePct: p.pick("alive", 20, 50, 100), changePct: p.pick("change", 0, 20, 60), maxDelay: 250 * time.Millisecond, force: map[uint32]bool{}, burst: p.pct("burst", 35)}
		switch gwMode {
		case "cache":
			pl.force[gwA] = true
		case "none":
			pl.force[gwA] = false
		}
		our := macBytes("02:00:00:00:00:01")
		if p.pct("odd", 60) {
			pl.unsol = c11OddARP(p, arpSub, our, 280*time.Millisecond)
			if gwMode == "none" {
				// the gateway address must stay out of the cache in this mode
				var keep []unsolFrame
				for _, u := range pl.unsol {
					if !strings.Contains(fmt.Sprintf("%x", u.data[28:32]), fmt.Sprintf("%08x", gwA)) {
						keep = append(keep, u)
					}
				}
				pl.unsol = keep
			}
			for _, u := range pl.unsol {
				sc.OddFrames = append(sc.OddFrames, u.tag)
			}
		}
		if live {
			argv := aw.Argv
			aw.Argv = append(append(append([]string{}, argv[:len(argv)-1]...), "--live", "400ms"), argv[len(argv)-1])
			aw.maxSteps = 3_000_000
			aw.SigintAt = "1s"
		}
		aw.NumCPU = p.pick("numcpu", 1, 2, 8)
		aw.onWrite, aw.onFilter = pl.onWrite, pl.onFilter
		sc.ArpArgv = aw.Argv
		cr1 := runCmd(t, c, aw, o.Trace)
		out.Res = &cr1.Res
		hash1 = cr1.Res.Hash
		if crashOrHang(out, "C11", cr1) {
			return out
		}
		if cr1.ExecErr != "" {
			out.violate("C11.arp-exec-error", "arp", "argv %v refused: %s", aw.Argv, cr1.ExecErr)
			return out
		}
		cacheData = string(cr1.Stdout)
	} else {
		// ---- handmade cache files: spellings, extra fields, duplicates ---------------------------
		n := p.n("nlines", 20)
		var sb strings.Builder
		pool := []uint32{}
		for i := 0; i < 8; i++ {
			pool = append(pool, ipU32("10.0.0.0")+uint32(2+p.n("cip", 250)))
		}
		if gwMode == "cache" {
			pool = append(pool, gwA)
		}
		for i := 0; i < n || (gwMode == "cache" && i == n); i++ {
			a := pool[p.n("cpick", len(pool))]
			if gwMode == "cache" && i == n {
				a = gwA
			}
			if gwMode == "none" && a == gwA {
				continue
			}
			mac := hostMAC(a)
			mac[1] = byte(0x20 + p.n("cgen", 4))
			ipS := ipStr(a)
			switch p.n("spell", 6) {
			case 0:
				ipS = "::ffff:" + ipS // 16-byte spelling of the same address
			case 1:
				ipS = fmt.Sprintf("::ffff:%x:%x", a>>16, a&0xffff)
			}
			macS := pktcodec.MACString(mac[:])
			switch p.n("macspell", 5) {
			case 0:
				macS = strings.ToUpper(macS)
			case 1:
				macS = strings.ReplaceAll(macS, ":", "-")
			}
			switch p.n("fields", 6) {
			case 5:
				// unknown extra fields may be long (well below the 64 KiB a line may have)
				fmt.Fprintf(&sb, "{\"ip\":%q,\"mac\":%q,\"vendor\":%q,\"note\":%q}\n", ipS, macS, strings.Repeat("Research & Design ", 4+p.n("vlen", 40)), strings.Repeat("x", p.n("nlen", 3000)))
			case 0:
				fmt.Fprintf(&sb, "{\"ip\":%q,\"mac\":%q}\n", ipS, macS)
			case 1:
				fmt.Fprintf(&sb, "{\"mac\":%q,\"vendor\":\"a \\\"quoted\\\" vendor\",\"ip\":%q,\"seen\":{\"n\":[1,2,{\"x\":null}]}}\n", macS, ipS)
			case 2:
				fmt.Fprintf(&sb, " {\"ip\": %q , \"mac\": %q, \"vendor\": \"\"}\n", ipS, macS)
			default:
				fmt.Fprintf(&sb, "{\"ip\":%q,\"mac\":%q,\"vendor\":\"sim\"}\n", ipS, macS)
			}
		}
		cacheData = sb.String()
		// damaged cache files: one line that is not a complete cache entry (at a drawn position), or a
		// read fault part-way.  The scan must refuse to start with nothing sent, or behave exactly as
		// the valid lines say (the damaged line contributing nothing) - never use a partly loaded
		// cache or mix fields of neighbouring lines.
		if p.pct("damaged", 35) {
			ls := strings.Split(strings.TrimSuffix(cacheData, "\n"), "\n")
			if cacheData == "" {
				ls = nil
			}
			da := ipU32("10.0.0.0") + uint32(2+p.n("dip", 250))
			damagedIP = da
			dm := hostMAC(da)
			dm[1] = 0x66
			var bad string
			sc.Damage = []string{"missing-mac", "missing-ip", "null-mac", "null-ip", "garbage", "truncated", "over-long", "read-fault"}[p.n("damage", 8)]
			switch sc.Damage {
			case "missing-mac":
				bad = fmt.Sprintf("{\"ip\":%q}", ipStr(da))
			case "missing-ip":
				bad = fmt.Sprintf("{\"mac\":%q,\"vendor\":\"x\"}", pktcodec.MACString(dm[:]))
			case "null-mac":
				bad = fmt.Sprintf("{\"ip\":%q,\"mac\":null}", ipStr(da))
			case "null-ip":
				bad = fmt.Sprintf("{\"ip\":null,\"mac\":%q}", pktcodec.MACString(dm[:]))
			case "garbage":
				bad = "10.0.0.9 02:00:00:00:00:09"
			case "truncated":
				bad = fmt.Sprintf("{\"ip\":%q,\"mac\":\"02:66", ipStr(da))
			case "over-long":
				bad = fmt.Sprintf("{\"ip\":%q,\"mac\":%q,\"vendor\":%q}", ipStr(da), pktcodec.MACString(dm[:]), strings.Repeat("v", 70000))
			}
			if sc.Damage == "read-fault" {
				if len(cacheData) > 0 {
					cacheFault = &FileFault{ErrAt: p.n("faultat", len(cacheData))}
				}
			} else {
				k := p.n("damagepos", len(ls)+1)
				ls = append(ls[:k], append([]string{bad}, ls[k:]...)...)
				cacheData = strings.Join(ls, "\n") + "\n"
			}
			damaged = true
		}
	}
	model, badLines := c11CacheModel(cacheData)
	if damaged {
		badLines = nil // expected; the model holds the valid lines only
	}
	lines, _ := stdoutLines([]byte(cacheData))
	sc.ArpLines = len(lines)
	sc.CacheHead = firstN(lines, 6)
	out.Stats["cache_lines"] += len(lines)
	out.Stats["variant:"+sc.Variant]++

	// ---- second command: an IP-level scan that uses the cache ------------------------------------
	cmds := [][]string{{"tcp"}, {"tcp", "syn"}, {"udp"}, {"icmp"}, {"tcp", "fin"}}
	s := &scanSpec{Cmd: cmds[p.n("cmd2", len(cmds))], JSON: p.bool("json2")}
	s.Kind = s.Cmd[0]
	var cached []uint32
	for a := range model {
		cached = append(cached, a)
	}
	sort.Slice(cached, func(i, j int) bool { return cached[i] < cached[j] })
	pickAddr := func() uint32 {
		if damaged && damagedIP != 0 && p.pct("fromdamaged", 25) {
			return damagedIP
		}
		switch {
		case len(cached) > 0 && p.pct("fromcache", 55):
			return cached[p.n("cidx", len(cached))]
		case p.pct("remote", 35):
			return ipU32("198.51.100.0") + uint32(p.n("ra", 512))
		}
		return arpSub.Base + uint32(p.n("la", arpSub.size()))
	}
	if s.portless() {
		s.Mode = []string{"subnet", "ips"}[p.n("mode2", 2)]
	} else {
		s.Mode = []string{"subnet", "pairs", "ips-ports"}[p.n("mode2", 3)]
		if s.Mode != "pairs" {
			lo := 1 + p.n("plo", 65000)
			s.Ports = []portRange{{lo, lo + p.n("pw", 2)}}
		}
	}
	switch s.Mode {
	case "subnet":
		if p.pct("same", 70) {
			s.Subnet = mkCIDR(arpSub.Base+uint32(p.n("suboff", arpSub.size())), max(arpSub.Bits, 26)+p.n("subbits", 3))
		} else {
			s.Subnet = mkCIDR(ipU32("198.51.100.0")+uint32(p.n("rsub", 256)), 28+p.n("rbits", 5))
		}
		s.SubnetArg = s.Subnet.String()
	default:
		n := 1 + p.n("nentries", 25)
		for i := 0; i < n; i++ {
			e := fileEntry{IP: ipStr(pickAddr())}
			if s.Mode == "pairs" {
				e.Port = 1 + p.n("port", 65535)
			}
			s.Entries = append(s.Entries, e)
		}
	}
	if p.pct("exclude", 25) {
		s.Exclude = genExclude(p, s)
	}
	if gwMode == "flag" {
		s.GwMAC = gwMAC
	}
	s.CacheFile = p.bool("cachefile")
	w := s.world()
	if _, ok := w.Files[cacheFn]; ok {
		w.Files[cacheFn] = cacheData
	} else {
		w.Stdin = &cacheData
	}
	if cacheFault != nil {
		name := "-"
		if _, ok := w.Files[cacheFn]; ok {
			name = cacheFn
		}
		w.FileFault = map[string]FileFault{name: *cacheFault}
	}
	// bad lines in the target list (they do not stop the reader): every valid line around them is
	// still addressed to the MAC of its own destination
	nBadLines := 0
	// (address/port pair lists only: an address list stops at its first bad line)
	// (An address list stops at its first bad line, so there the bad line is the last one; with a
	// port list the file is read again for every port, and the error request of one port is followed
	// by the valid requests of the next.)
	if data, ok := w.Files[targetsFn]; ok && (s.Mode == "pairs" || s.Mode == "ips-ports") && p.pct("badlines", 50) {
		ls := strings.Split(strings.TrimSuffix(data, "\n"), "\n")
		for i := 1 + p.n("nbad", 3); i > 0 && (s.Mode == "pairs" || nBadLines == 0); i-- {
			k := p.n("badpos", len(ls)+1)
			bad := `{"ip":"10.0.0.300","port":80}`
			if s.Mode != "pairs" {
				k, bad = len(ls), `{"ip":"10.0.0.300"}`
			}
			ls = append(ls[:k], append([]string{bad}, ls[k:]...)...)
			nBadLines++
		}
		w.Files[targetsFn] = strings.Join(ls, "\n") + "\n"
		sc.BadTargetLines = nBadLines
	}
	if _, ok := w.Files[targetsFn]; ok && s.Mode != "subnet" && len(cached) > 0 && p.pct("positional", 20) {
		// a host argument next to the target file (the file decides what is scanned): every probe
		// still goes to the MAC of its own destination
		w.Argv = append(w.Argv, ipStr(cached[p.n("posidx", len(cached))]))
		sc.PositionalHost = w.Argv[len(w.Argv)-1]
	}
	w.NumCPU = p.pick("numcpu2", 1, 2, 4, 16)
	sc.Spec, sc.World = s, w
	cr := runCmd(t, c, w, o.Trace)
	if out.Res == nil {
		out.Res = &cr.Res
	} else {
		// both executions count; keep the second result, fold the first hash into the key
		r := cr.Res
		r.Steps += out.Res.Steps
		for k, v := range out.Res.Faults {
			r.Faults[k] += v
		}
		for k, v := range out.Res.Probes {
			r.Probes[k] += v
		}
		out.Res = &r
	}
	out.Nontrivial = len(lines) >= 1
	out.Key = fmt.Sprintf("%s/%s/%v/%s/%d/%016x/%016x", sc.Variant, gwMode, s.Cmd, s.Mode, len(lines), hash1, cr.Res.Hash)
	sig := sc.Variant + "/" + s.Kind
	if crashOrHang(out, "C11", cr) {
		return out
	}
	if damaged && cr.ExecErr != "" {
		if n := len(cr.Wire); n > 0 {
			out.violate("C11.error-after-send", sc.Variant+"/"+sc.Damage, "argv %v: refused (%s) after %d frames were sent", w.Argv, cr.ExecErr, n)
		}
		simrtProbe(out.Res, "damaged-cache-refused")
		return out
	}
	// 1. every printed line is accepted by the cache loader
	if cr.ExecErr != "" {
		why := "the lines are well-formed cache lines"
		cls := "valid-lines"
		if len(badLines) > 0 {
			why = fmt.Sprintf("offending lines: %v", firstN(badLines, 3))
			cls = "unloadable-line"
		}
		out.violate("C11.cache-rejected", sc.Variant+"/"+cls, "the IP-level scan %v refused the ARP cache produced by %v: %s; %s; odd frames sent: %v", w.Argv, sc.ArpArgv, cr.ExecErr, why, sc.OddFrames)
		return out
	}
	if len(badLines) > 0 {
		// the loader accepted a line the property's reading of the format does not: report it, the
		// mapping below cannot be judged for that line
		out.violate("C11.bad-line-printed", sc.Variant, "the ARP scan %v printed lines that are not {ip: IPv4, mac: 6-byte address}: %v (odd frames sent: %v)", sc.ArpArgv, firstN(badLines, 3), sc.OddFrames)
		return out
	}
	// 2. destination MAC of every probe
	gw := ""
	switch gwMode {
	case "flag":
		gw = gwMAC
	case "cache":
		gw = model[gwA]
	}
	want := s.expected()
	gotFrames := map[probeKey]int{}
	for i, f := range cr.Wire {
		k, pk, err := probeOf(s.Kind, f.Data, false)
		if err != nil {
			out.violate("C11.undecodable", sig, "frame %d: %v", i, err)
			return out
		}
		gotFrames[k]++
		exp, src := model[k.IP], "cache entry of its own destination"
		if exp == "" {
			exp, src = gw, "gateway MAC ("+gwMode+")"
		}
		got := pktcodec.MACString(pk.EthDst[:])
		if exp == "" {
			out.violate("C11.wrong-mac", sig+"/sent-without-mac", "argv %v: probe to %v was sent to %s although neither a cache entry nor a gateway MAC exists", w.Argv, k, got)
			return out
		}
		if got != exp {
			whose := ""
			for a, m := range model {
				if m == got {
					whose = " (that is the cache entry of " + ipStr(a) + ")"
				}
			}
			out.violate("C11.wrong-mac", sc.Variant+sc.Damage+"/"+gwMode, "argv %v: probe to %v has Ethernet destination %s%s, expected %s = %s; cache lines: %v", w.Argv, k, got, whose, exp, src, firstN(lines, 8))
			return out
		}
	}
	// 3. probes without any MAC are replaced by exactly one error naming the address
	wantFrames := map[probeKey]int{}
	wantErr := map[string]int{}
	for k, n := range want {
		if model[k.IP] != "" || gw != "" {
			wantFrames[k] = n
		} else {
			wantErr[ipStr(k.IP)] += n
			simrtProbe(out.Res, "no-mac-error")
		}
	}
	if missing, extra := diffMultiset(gotFrames, wantFrames); len(missing) > 0 || len(extra) > 0 {
		out.violate("C11.probes", sig+"/"+gwMode, "argv %v: probes differ from the specification: missing %v, extra %v", w.Argv, firstN(missing, 5), firstN(extra, 5))
	}
	gotErr := map[string]int{}
	nBadSeen := 0
	for _, e := range cr.Errs {
		cl := c13Classify(e.Err)
		if strings.HasPrefix(cl, "nomac:") {
			gotErr[strings.TrimPrefix(cl, "nomac:")]++
		} else if cl == "address" && nBadSeen < nBadLines*max(1, len(s.portList())) {
			nBadSeen++ // the injected bad target line(s)
		} else {
			out.violate("C11.errors", sig+"/other", "argv %v: unexpected error record %q", w.Argv, e.Err)
		}
	}
	for _, a := range sortedKeys(wantErr) {
		n := wantErr[a]
		if gotErr[a] != n {
			out.violate("C11.errors", sig+"/count", "argv %v: %d probes to %s have no MAC (no cache entry, no gateway MAC) but %d error records name it", w.Argv, n, a, gotErr[a])
			break
		}
	}
	for _, a := range sortedKeys(gotErr) {
		n := gotErr[a]
		if wantErr[a] == 0 {
			out.violate("C11.errors", sig+"/spurious", "argv %v: %d 'no MAC' errors for %s, which has a MAC (%s) or is not a target", w.Argv, n, a, model[ipU32(a)])
			break
		}
	}
	if len(model) > 0 && len(cr.Wire) > 0 {
		simrtProbe(out.Res, "cache-entry-used")
	}
	return out
}

// ---- library level: linearizability of arp.Cache ---------------------------------------------

type c11Op struct {
	Kind string // put | get | del
	Key  int
	Val  int // unique per put
}

type c11LinScenario struct {
	Clients int `json:"clients"`
	Keys    int `json:"keys"`
	Ops     int `json:"ops"`
}

func c11MAC(v int) net.HardwareAddr {
	return net.HardwareAddr{0x02, 0x33, byte(v >> 24), byte(v >> 16), byte(v >> 8), byte(v)}
}

var c11Model = porcupine.Model{
	Partition: func(history []porcupine.Operation) [][]porcupine.Operation {
		byKey := map[int][]porcupine.Operation{}
		var keys []int
		for _, op := range history {
			k := op.Input.(c11Op).Key
			if _, ok := byKey[k]; !ok {
				keys = append(keys, k)
			}
			byKey[k] = append(byKey[k], op)
		}
		sort.Ints(keys)
		var out [][]porcupine.Operation
		for _, k := range keys {
			out = append(out, byKey[k])
		}
		return out
	},
	Init: func() interface{} { return 0 }, // 0 = absent
	Step: func(state, input, output interface{}) (bool, interface{}) {
		in := input.(c11Op)
		st := state.(int)
		switch in.Kind {
		case "put":
			return true, in.Val
		case "del":
			return true, 0
		default:
			return output.(int) == st, st
		}
	},
	Equal: func(a, b interface{}) bool { return a.(int) == b.(int) },
	DescribeOperation: func(input, output interface{}) string {
		in := input.(c11Op)
		if in.Kind == "get" {
			return fmt.Sprintf("get(k%d) -> %d", in.Key, output.(int))
		}
		return fmt.Sprintf("%s(k%d, %d)", in.Kind, in.Key, in.Val)
	},
}

func runC11Lin(t *testing.T, c simrt.Chooser, o Opts) *Out {
	p := picker{c}
	sc := &c11LinScenario{Clients: 2 + p.n("clients", 7), Keys: 1 + p.n("keys", 3), Ops: 4 + p.n("ops", 37)}
	out := &Out{Scenario: sc, Stats: map[string]int{}}
	type planned struct {
		client int
		op     c11Op
	}
	var plan [][]c11Op
	nextVal := 1
	for cl := 0; cl < sc.Clients; cl++ {
		plan = append(plan, nil)
	}
	for i := 0; i < sc.Ops; i++ {
		cl := p.n("opclient", sc.Clients)
		op := c11Op{Key: p.n("opkey", sc.Keys)}
		switch p.n("opkind", 5) {
		case 0, 1:
			op.Kind, op.Val = "put", nextVal
			nextVal++
		case 2:
			op.Kind = "del"
		default:
			op.Kind = "get"
		}
		plan[cl] = append(plan[cl], op)
	}
	var hist []porcupine.Operation
	var seq int64
	done := false
	// preemption between the statements of the critical sections in most runs: readers share the lock
	pm := p.pick("preemptm", 0, 2, 3, 5, 16)
	res := simrt.Execute(t, simrt.Config{Chooser: c, Trace: o.Trace, MaxSteps: 200_000, PreemptM: pm}, nil, func(r *simrt.Run) {
		cache := arp.NewCache()
		var wg simrt.WaitGroup
		for cl := range plan {
			cl := cl
			wg.Add(1)
			simrt.Go("c11.client", func() {
				defer wg.Done()
				for _, op := range plan[cl] {
					simrt.Yield("c11.invoke")
					ip := net.IPv4(10, 0, 0, byte(1+op.Key)).To4()
					seq++
					call := seq
					outv := 0
					switch op.Kind {
					case "put":
						cache.Put(ip, c11MAC(op.Val))
					case "del":
						cache.Delete(ip)
					default:
						if m := cache.Get(ip); m != nil {
							if len(m) != 6 {
								outv = -1
							} else {
								outv = int(m[2])<<24 | int(m[3])<<16 | int(m[4])<<8 | int(m[5])
							}
						}
					}
					seq++
					hist = append(hist, porcupine.Operation{ClientId: cl, Input: op, Call: call, Output: outv, Return: seq})
				}
			})
		}
		wg.Wait()
		done = true
	})
	out.Res = &res
	out.Nontrivial = sc.Ops >= 4
	out.Key = fmt.Sprintf("lin/%d/%d/%d/%016x", sc.Clients, sc.Keys, sc.Ops, res.Hash)
	if len(res.Panics) > 0 {
		out.violate("C11.panic", "lin/"+firstLine(res.Panics[0].Value), "panic in %s: %s\n%s", res.Panics[0].G, res.Panics[0].Value, trimStack(res.Panics[0].Stack))
		return out
	}
	if !done {
		out.violate("C11.hang", "lin/"+res.End.String(), "clients did not finish: %v; parked %v", res.End, firstN(res.Blocked, 8))
		return out
	}
	overlap := false
	for i := range hist {
		for j := range hist {
			if i != j && hist[i].Call < hist[j].Return && hist[j].Call < hist[i].Return {
				overlap = true
			}
		}
	}
	if overlap {
		simrtProbe(&res, "overlapping-operations")
	}
	switch porcupine.CheckOperationsTimeout(c11Model, hist, 20*time.Second) {
	case porcupine.Illegal:
		var desc []string
		for _, h := range hist {
			desc = append(desc, fmt.Sprintf("c%d[%d,%d] %s", h.ClientId, h.Call, h.Return, c11Model.DescribeOperation(h.Input, h.Output)))
		}
		out.violate("C11.linearizability", "lin", "history of %d operations by %d clients on %d keys is not linearizable against a map: %v", len(hist), sc.Clients, sc.Keys, desc)
	case porcupine.Unknown:
		out.Stats["porcupine-timeout"]++
	}
	return out
}

func init() {
	register(&Suite{Name: "C11-compose", Prop: "C11", Doc: "sx arp --json output (or handmade cache files) fed as ARP cache of tcp/udp/icmp scans; Ethernet destination of every probe vs the printed lines", Run: runC11Compose})
	register(&Suite{Name: "C11-cachelin", Prop: "C11", Doc: "2..8 clients on one real arp.Cache under the scheduler; history checked with porcupine against a map", Run: runC11Lin})
}
