package harness

import (
	"encoding/json"
	"fmt"
	"sort"
	"strings"
	"time"

	"verif/sim/pktcodec"
	"verif/sim/simwire"
)

// ---- reference model of "reply shape" (written from the property text, no sx code) ---------

type scanShape struct {
	Kind    string      // arp | icmp | udp | tcp
	SYNOnly bool        // SYN scan: exactly SYN+ACK
	AllFlag bool        // record carries the flag letters
	Name    string      // value of the "scan" key in JSON records
	Subnet  *cidr       // nil = no subnet given (file mode)
	Ports   []portRange // nil = no ports given
	VPN     bool
}

func shapeOf(s *scanSpec) scanShape {
	sh := scanShape{Kind: s.Kind, VPN: s.VPN}
	if s.Mode == "subnet" {
		c := s.Subnet
		sh.Subnet = &c
	}
	if len(s.Ports) > 0 {
		sh.Ports = s.Ports
	}
	switch s.Kind {
	case "icmp":
		sh.Name = "icmp"
	case "udp":
		sh.Name = "udp"
	case "tcp":
		sub := ""
		if len(s.Cmd) > 1 {
			sub = s.Cmd[1]
		}
		switch {
		case len(s.TCPFlags) > 0:
			sh.Name, sh.AllFlag = "tcpflags", true
		case sub == "fin":
			sh.Name, sh.AllFlag = "tcpfin", true
		case sub == "null":
			sh.Name, sh.AllFlag = "tcpnull", true
		case sub == "xmas":
			sh.Name, sh.AllFlag = "tcpxmas", true
		default:
			sh.Name, sh.SYNOnly = "tcpsyn", true
		}
	}
	return sh
}

var flagLetters = []struct {
	bit uint16
	c   byte
}{{pktcodec.SYN, 's'}, {pktcodec.ACK, 'a'}, {pktcodec.FIN, 'f'}, {pktcodec.RST, 'r'}, {pktcodec.PSH, 'p'}, {pktcodec.URG, 'u'}, {pktcodec.ECE, 'e'}, {pktcodec.CWR, 'c'}, {pktcodec.NS, 'n'}}

func flagString(f uint16) string {
	var b []byte
	for _, fl := range flagLetters {
		if f&fl.bit != 0 {
			b = append(b, fl.c)
		}
	}
	return string(b)
}

// record is the canonical form of one output record.
type record struct {
	Scan  string
	IP    string
	MAC   string
	Port  int
	Flags string
	Type  int
	Code  int
	TTL   int
}

func (r record) String() string {
	return fmt.Sprintf("scan=%s ip=%s mac=%s port=%d flags=%s type=%d code=%d ttl=%d", r.Scan, r.IP, r.MAC, r.Port, r.Flags, r.Type, r.Code, r.TTL)
}

// wellFormed: the frame decodes strictly, is unfragmented, and has no inconsistency.
func wellFormed(p *pktcodec.Packet) bool {
	if len(p.Problems) > 0 {
		return false
	}
	if p.IP != nil && (p.IP.FragOff != 0 || p.IP.Flags&1 != 0) {
		return false
	}
	return true
}

// replyRecord decides, from the frame bytes alone, whether the frame has the reply shape of
// the scan and which record it must produce.
func (sh scanShape) replyRecord(data []byte) (record, bool) {
	p, err := pktcodec.Decode(data, !sh.VPN)
	if err != nil || !wellFormed(p) {
		return record{}, false
	}
	switch sh.Kind {
	case "arp":
		if p.ARP == nil || p.ARP.HLen != 6 || p.ARP.PLen != 4 || p.ARP.HType != 1 || p.ARP.PType != pktcodec.EtherTypeIPv4 {
			return record{}, false
		}
		var a [4]byte
		copy(a[:], p.ARP.SPA)
		if sh.Subnet != nil && !sh.Subnet.contains(pktcodec.U32(a)) {
			return record{}, false
		}
		return record{IP: pktcodec.IPString(a), MAC: pktcodec.MACString(p.ARP.SHA)}, true
	case "icmp", "udp":
		if p.IP == nil || p.ICMP == nil || p.ICMP.Type == 8 {
			return record{}, false
		}
		if sh.Subnet != nil && !sh.Subnet.contains(pktcodec.U32(p.IP.Src)) {
			return record{}, false
		}
		return record{Scan: sh.Name, IP: pktcodec.IPString(p.IP.Src), Type: int(p.ICMP.Type), Code: int(p.ICMP.Code), TTL: int(p.IP.TTL)}, true
	case "tcp":
		if p.IP == nil || p.TCP == nil {
			return record{}, false
		}
		if sh.Subnet != nil && !sh.Subnet.contains(pktcodec.U32(p.IP.Src)) {
			return record{}, false
		}
		if sh.Ports != nil && !inRanges(sh.Ports, int(p.TCP.SrcPort)) {
			return record{}, false
		}
		if sh.SYNOnly && p.TCP.Flags != pktcodec.SYN|pktcodec.ACK {
			return record{}, false
		}
		r := record{Scan: sh.Name, IP: pktcodec.IPString(p.IP.Src), Port: int(p.TCP.SrcPort)}
		if sh.AllFlag {
			r.Flags = flagString(p.TCP.Flags)
		}
		return r, true
	}
	return record{}, false
}

// ---- parsing sx output ----------------------------------------------------------------------

func parseRecordJSON(kind, line string) (record, error) {
	var m map[string]interface{}
	dec := json.NewDecoder(strings.NewReader(line))
	dec.UseNumber()
	if err := dec.Decode(&m); err != nil {
		return record{}, fmt.Errorf("not a JSON object: %v", err)
	}
	if dec.More() {
		return record{}, fmt.Errorf("trailing data after the JSON object")
	}
	num := func(v interface{}) (int, error) {
		n, ok := v.(json.Number)
		if !ok {
			return 0, fmt.Errorf("not a number: %v", v)
		}
		i, err := n.Int64()
		return int(i), err
	}
	str := func(k string) (string, error) {
		s, ok := m[k].(string)
		if !ok {
			return "", fmt.Errorf("key %q missing or not a string", k)
		}
		return s, nil
	}
	keys := func(allowed ...string) error {
		for k := range m {
			found := false
			for _, a := range allowed {
				if a == k {
					found = true
				}
			}
			if !found {
				return fmt.Errorf("undocumented key %q", k)
			}
		}
		return nil
	}
	var r record
	var err error
	switch kind {
	case "arp":
		if err = keys("ip", "mac", "vendor"); err != nil {
			return r, err
		}
		if r.IP, err = str("ip"); err != nil {
			return r, err
		}
		if r.MAC, err = str("mac"); err != nil {
			return r, err
		}
		if _, err = str("vendor"); err != nil {
			return r, err
		}
	case "icmp", "udp":
		if err = keys("scan", "ip", "ttl", "icmp"); err != nil {
			return r, err
		}
		if r.Scan, err = str("scan"); err != nil {
			return r, err
		}
		if r.IP, err = str("ip"); err != nil {
			return r, err
		}
		if r.TTL, err = num(m["ttl"]); err != nil {
			return r, err
		}
		ic, ok := m["icmp"].(map[string]interface{})
		if !ok {
			return r, fmt.Errorf("key icmp missing or not an object")
		}
		if r.Type, err = num(ic["type"]); err != nil {
			return r, err
		}
		if r.Code, err = num(ic["code"]); err != nil {
			return r, err
		}
	case "tcp":
		if err = keys("scan", "ip", "port", "flags"); err != nil {
			return r, err
		}
		if r.Scan, err = str("scan"); err != nil {
			return r, err
		}
		if r.IP, err = str("ip"); err != nil {
			return r, err
		}
		if r.Port, err = num(m["port"]); err != nil {
			return r, err
		}
		if f, ok := m["flags"]; ok {
			if r.Flags, ok = f.(string); !ok {
				return r, fmt.Errorf("flags not a string")
			}
		}
	}
	return r, nil
}

func parseRecordPlain(sh scanShape, line string) (record, error) {
	f := strings.Fields(line)
	var r record
	r.Scan = sh.Name
	bad := fmt.Errorf("unparsable plain record %q", line)
	switch sh.Kind {
	case "arp":
		if len(f) < 2 {
			return r, bad
		}
		r.IP, r.MAC = f[0], f[1]
	case "icmp", "udp":
		if len(f) != 4 {
			return r, bad
		}
		r.IP = f[0]
		if _, err := fmt.Sscanf(f[1]+" "+f[2]+" "+f[3], "%d %d %d", &r.Type, &r.Code, &r.TTL); err != nil {
			return r, bad
		}
	case "tcp":
		if len(f) < 2 || len(f) > 3 {
			return r, bad
		}
		r.IP = f[0]
		if _, err := fmt.Sscanf(f[1], "%d", &r.Port); err != nil {
			return r, bad
		}
		if len(f) == 3 {
			r.Flags = f[2]
		}
	}
	return r, nil
}

// parseOutput parses stdout of a packet scan into canonical records.
func parseOutput(sh scanShape, jsonMode bool, stdout []byte) ([]record, []string) {
	lines, complete := stdoutLines(stdout)
	var recs []record
	var errs []string
	if !complete {
		errs = append(errs, "stdout does not end with a newline (incomplete record)")
	}
	for i, l := range lines {
		var r record
		var err error
		if jsonMode {
			r, err = parseRecordJSON(sh.Kind, l)
		} else {
			r, err = parseRecordPlain(sh, l)
		}
		if err != nil {
			errs = append(errs, fmt.Sprintf("line %d: %v", i, err))
			continue
		}
		recs = append(recs, r)
	}
	return recs, errs
}

func recMultiset(rs []record) map[string]int {
	m := map[string]int{}
	for _, r := range rs {
		m[r.String()]++
	}
	return m
}

// ---- simulated hosts ------------------------------------------------------------------------

type netPlan struct {
	sh        scanShape
	salt      uint64
	ourMAC    [6]byte
	peerMAC   func(ip uint32) [6]byte
	alivePct  int
	openPct   int
	maxDelay  time.Duration // replies arrive after a delay in (0, maxDelay)
	latePct   int           // percentage of replies that arrive late instead (after lateMin)
	lateMin   time.Duration
	dupPct    int
	variety   bool // IP options, TCP options, payloads in replies
	burst     bool // reply latencies quantised: several replies arrive at the same instant
	replies   int
	iface     string
	unsol     []unsolFrame
}

type unsolFrame struct {
	delay time.Duration
	data  []byte
	tag   string
}

func mix64(a, b uint64) uint64 {
	x := a ^ (b+0x9e3779b97f4a7c15)*0xbf58476d1ce4e5b9
	x ^= x >> 31
	x *= 0x94d049bb133111eb
	x ^= x >> 29
	return x
}

func (np *netPlan) alive(ip uint32) bool { return int(mix64(np.salt, uint64(ip))%100) < np.alivePct }
func (np *netPlan) open(ip uint32, port int) bool {
	return int(mix64(np.salt^0x55, uint64(ip)<<16|uint64(port))%100) < np.openPct
}
func (np *netPlan) ttl(ip uint32) uint8 { return uint8(1 + mix64(np.salt^0x77, uint64(ip))%254) }

func hostMAC(ip uint32) [6]byte {
	if ip%7 == 5 {
		// a registered prefix whose vendor name is long and contains characters that JSON escapes
		// ("Beijing National Railway Research & Design Institute of Signal & Communication Group
		// Co..Ltd."): the line `sx arp --json` prints for such a host is far longer than usual
		return [6]byte{0xc0, 0x53, 0x36, byte(ip >> 16), byte(ip >> 8), byte(ip)}
	}
	return [6]byte{0x02, 0x11, byte(ip >> 24), byte(ip >> 16), byte(ip >> 8), byte(ip)}
}

// wrap adds the link header (or not, in VPN mode) to an IP datagram.
func (np *netPlan) wrap(srcMAC [6]byte, datagram []byte) []byte {
	if np.sh.VPN {
		return datagram
	}
	return append(pktcodec.EthHeader(np.ourMAC, srcMAC, pktcodec.EtherTypeIPv4), datagram...)
}

// onWrite answers a probe like the scanned host would.
func (np *netPlan) onWrite(n *simwire.Net, f *simwire.Frame) {
	p, err := pktcodec.Decode(f.Data, !np.sh.VPN)
	if err != nil {
		return
	}
	r := runChooser{}
	var reply []byte
	tag := ""
	switch {
	case p.ARP != nil && np.sh.Kind == "arp":
		var t [4]byte
		copy(t[:], p.ARP.TPA)
		ip := pktcodec.U32(t)
		if !np.alive(ip) {
			return
		}
		mac := hostMAC(ip)
		var our [6]byte
		copy(our[:], p.ARP.SHA)
		body := pktcodec.EncodeARP(&pktcodec.ARP{HType: 1, PType: pktcodec.EtherTypeIPv4, HLen: 6, PLen: 4, Op: 2, SHA: mac[:], SPA: t[:], THA: p.ARP.SHA, TPA: p.ARP.SPA})
		ethSrc := mac
		if ip%5 == 3 {
			// the reply is relayed (proxy ARP, NLB cluster address, bridge): the Ethernet source is
			// not the sender hardware address inside the ARP body, which is the one that counts
			ethSrc = [6]byte{0x02, 0x77, byte(ip >> 8), byte(ip), 0x5a, 0xa5}
		}
		reply = append(pktcodec.EthHeader(our, ethSrc, pktcodec.EtherTypeARP), body...)
		tag = "arp-reply"
	case p.IP != nil:
		ip := pktcodec.U32(p.IP.Dst)
		if !np.alive(ip) {
			return
		}
		mac := np.peerMAC(ip)
		opts := pktcodec.IPOpts{ID: uint16(mix64(np.salt, uint64(f.Idx))), TTL: np.ttl(ip)}
		if np.variety && r.pct("ipopt", 15) {
			// 4..40 bytes of IP options (NOPs, optionally a record-route option): the headers of a reply
			// may end anywhere up to byte 14+60+60 of the frame
			n := []int{4, 4, 8, 20, 24, 36, 40}[r.n("ipoptlen", 7)]
			opts.Options = make([]byte, n)
			for i := range opts.Options {
				opts.Options[i] = 1
			}
			if n >= 8 && r.pct("rr", 50) {
				opts.Options[0], opts.Options[1], opts.Options[2] = 7, byte(n), 4 // record route, empty
				for i := 3; i < n; i++ {
					opts.Options[i] = 0
				}
			}
		}
		switch {
		case p.ICMP != nil && np.sh.Kind == "icmp":
			if p.ICMP.Type != 8 {
				return // only echo requests are answered by this host model
			}
			pl := p.ICMP.Payload
			if np.variety && r.pct("longpayload", 10) {
				pl = append(append([]byte{}, pl...), make([]byte, 64+r.n("longpayloadn", 1200))...)
			}
			body := pktcodec.EncodeICMP(0, 0, p.ICMP.Rest, pl)
			reply = np.wrap(mac, pktcodec.EncodeIPv4(p.IP.Dst, p.IP.Src, pktcodec.ProtoICMP, body, opts))
			tag = "echo-reply"
		case p.UDP != nil && np.sh.Kind == "udp":
			if np.open(ip, int(p.UDP.DstPort)) {
				return // open UDP port: silence
			}
			// ICMP port unreachable quoting the IP header + 8 bytes
			var orig []byte
			if p.HasEth {
				orig = f.Data[14:]
			} else {
				orig = f.Data
			}
			q := 20 + 8
			if q > len(orig) {
				q = len(orig)
			}
			code := uint8(3)
			if r.pct("othercode", 20) {
				code = uint8(r.n("code", 16))
			}
			body := pktcodec.EncodeICMP(3, code, [4]byte{}, orig[:q])
			reply = np.wrap(mac, pktcodec.EncodeIPv4(p.IP.Dst, p.IP.Src, pktcodec.ProtoICMP, body, opts))
			tag = "port-unreachable"
		case p.TCP != nil && np.sh.Kind == "tcp":
			open := np.open(ip, int(p.TCP.DstPort))
			var flags uint16
			switch {
			case p.TCP.Flags&pktcodec.SYN != 0 && p.TCP.Flags&pktcodec.ACK == 0:
				if open {
					flags = pktcodec.SYN | pktcodec.ACK
				} else {
					flags = pktcodec.RST | pktcodec.ACK
				}
			case open:
				return // FIN/NULL/Xmas to an open port: silence
			default:
				flags = pktcodec.RST | pktcodec.ACK
			}
			var topts, payload []byte
			if np.variety && r.pct("tcpopt", 30) {
				topts = []byte{2, 4, 5, 0xb4, 1, 3, 3, 7}
			}
			if np.variety && r.pct("payload", 10) {
				payload = []byte("hello")
			}
			seg := pktcodec.EncodeTCP(p.IP.Dst, p.IP.Src, p.TCP.DstPort, p.TCP.SrcPort, uint32(mix64(np.salt, uint64(f.Idx))), p.TCP.Seq+1, flags, 65535, topts, payload)
			reply = np.wrap(mac, pktcodec.EncodeIPv4(p.IP.Dst, p.IP.Src, pktcodec.ProtoTCP, seg, opts))
			tag = "tcp-reply"
		default:
			return
		}
	default:
		return
	}
	d := time.Duration(1 + r.n("lat", int(np.maxDelay)-1))
	if np.burst {
		// replies arrive in bursts: several frames at the same virtual instant, so that records of
		// several frames are in the result buffers together
		q := np.maxDelay/6 + 1
		d = d/q*q + 1
		if d >= np.maxDelay {
			d = np.maxDelay - 1
		}
		if d < 1 {
			d = 1
		}
	}
	if np.latePct > 0 && r.pct("late", np.latePct) {
		d = np.lateMin + time.Duration(r.n("latelat", int(np.maxDelay)))
		tag += "-late"
	}
	np.replies++
	n.Inject(d, f.Iface, reply, tag)
	if np.dupPct > 0 && r.pct("dup", np.dupPct) {
		n.Inject(d+time.Duration(r.n("dupd", 1000)), f.Iface, reply, tag+"-dup")
	}
}

// onFilter schedules the unsolicited traffic once the socket listens.
func (np *netPlan) onFilter(n *simwire.Net, s *simwire.Sock) {
	if s.ID != 0 {
		return
	}
	for _, u := range np.unsol {
		n.Inject(u.delay, s.Iface, u.data, u.tag)
	}
}

// runChooser draws runtime world decisions from the current run.
type runChooser struct{}

func (runChooser) n(label string, n int) int {
	if n <= 1 {
		return 0
	}
	return simrtCurrent().ChooseWorld(label, n)
}
func (r runChooser) pct(label string, pct int) bool { return r.n(label, 100) < pct }

// expectedFromDeliveries computes, from the frames the network offered to open sockets, the
// records that must be printed (delivered strictly before the socket closed) and those that may
// be printed (delivered at the closing instant).
func expectedFromDeliveries(sh scanShape, cr *CmdResult) (must, may []record) {
	closeT := map[int]time.Duration{}
	closed := map[int]bool{}
	for _, s := range cr.Socks {
		closeT[s.ID] = s.CloseT
		closed[s.ID] = s.CloseT > 0 || cr.Returned
	}
	// A scan with many port ranges runs as several consecutive sockets.  A reply belongs to the
	// socket through which its probe left: a frame whose source port was never probed through the
	// socket it is offered to (a late duplicate of an earlier phase's reply) may be reported or not.
	portsOf := map[int]map[int]bool{}
	if len(cr.Socks) > 1 && sh.Kind == "tcp" {
		for _, f := range cr.Wire {
			if p, err := pktcodec.Decode(f.Data, !sh.VPN); err == nil && p.TCP != nil {
				if portsOf[f.Sock] == nil {
					portsOf[f.Sock] = map[int]bool{}
				}
				portsOf[f.Sock][int(p.TCP.DstPort)] = true
			}
		}
	}
	for _, d := range cr.Dels {
		rec, ok := sh.replyRecord(d.Data)
		if !ok {
			continue
		}
		own := true
		if len(cr.Socks) > 1 && sh.Kind == "tcp" {
			own = portsOf[d.Sock][rec.Port]
		}
		if ct, ok := closeT[d.Sock]; ok && (d.T < ct || !closed[d.Sock]) && own {
			must = append(must, rec)
		} else {
			may = append(may, rec)
		}
	}
	return
}

func diffRecords(printed, must, may []record) (missing, phantom []string) {
	pm := recMultiset(printed)
	mm := recMultiset(must)
	am := recMultiset(append(append([]record{}, must...), may...))
	for k, w := range mm {
		if pm[k] < w {
			missing = append(missing, fmt.Sprintf("%s x%d", k, w-pm[k]))
		}
	}
	for k, g := range pm {
		if g > am[k] {
			phantom = append(phantom, fmt.Sprintf("%s x%d", k, g-am[k]))
		}
	}
	sort.Strings(missing)
	sort.Strings(phantom)
	return
}

type socksRec struct {
	Scan    string
	Version int
	IP      string
	Port    int
	Auth    bool
}

func parseSocksJSON(line string) (socksRec, error) {
	var m map[string]interface{}
	dec := json.NewDecoder(strings.NewReader(line))
	dec.UseNumber()
	if err := dec.Decode(&m); err != nil {
		return socksRec{}, err
	}
	if dec.More() {
		return socksRec{}, fmt.Errorf("trailing data")
	}
	var r socksRec
	for k, v := range m {
		switch k {
		case "scan":
			r.Scan, _ = v.(string)
		case "version":
			n, _ := v.(json.Number).Int64()
			r.Version = int(n)
		case "ip":
			r.IP, _ = v.(string)
		case "port":
			n, _ := v.(json.Number).Int64()
			r.Port = int(n)
		case "auth":
			r.Auth, _ = v.(bool)
		default:
			return r, fmt.Errorf("undocumented key %q", k)
		}
	}
	if r.Scan != "socks" || r.Version != 5 {
		return r, fmt.Errorf("scan/version fields %q/%d", r.Scan, r.Version)
	}
	return r, nil
}
