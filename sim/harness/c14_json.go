package harness

import (
	"context"
	"encoding/json"
	"fmt"
	"reflect"
	"sort"
	"strings"
	"testing"
	"time"
	"unicode/utf8"

	dtypes "github.com/docker/docker/api/types"
	"github.com/v-byte-cpu/sx/command/log"
	"github.com/v-byte-cpu/sx/pkg/scan"
	"github.com/v-byte-cpu/sx/pkg/scan/arp"
	"github.com/v-byte-cpu/sx/pkg/scan/docker"
	"github.com/v-byte-cpu/sx/pkg/scan/elastic"
	"github.com/v-byte-cpu/sx/pkg/scan/icmp"
	"github.com/v-byte-cpu/sx/pkg/scan/socks5"
	"github.com/v-byte-cpu/sx/pkg/scan/tcp"

	"verif/sim/simio"
	"verif/sim/simrt"
)

// C14 — JSON output: one complete, faithful JSON object per result, in order (library level).
// The real logger (optionally wrapped in the real UniqueLogger) is fed through a real channel by
// a producer goroutine under the scheduler, flush ticker on the virtual clock.

type c14Scenario struct {
	Type     string   `json:"result_type"`
	Results  int      `json:"results"`
	Unique   bool     `json:"unique_logger"`
	ChanCap  int      `json:"chan_cap"`
	ViaRC    bool     `json:"through_result_chan,omitempty"` // results are handed over with scan.ResultChan.Put (capacity = chan_cap, at least 1)
	Chunks   []string `json:"log_calls_end_after,omitempty"`  // like a scan split into port chunks: LogResults is called once per chunk on the same channel, each call ends by its own cancel after this long
	Flush    string   `json:"flush_interval"`
	PauseMax string   `json:"producer_pause_below,omitempty"`
	OutStall string   `json:"output_stall,omitempty"`
	Samples  []string `json:"sample_values,omitempty"`
}

var c14Nasty = []string{
	``, `plain`, `"`, `\`, `\"`, `"quoted"`, `back\slash\\`, "new\nline", "cr\rlf\r\n", "tab\tx", "\x00", "\x01\x02\x1f", "\x7f",
	"\u2028", "\u2029", "line sep \u2028 para sep \u2029", "<script>alert('x')</script>", "&amp;", "\u65e5\u672c\u8a9e", "\U0001F600", "\u00e9", "\ufeff", "\ufffd", "\u0085", "\u200b",
	"\xff", "\xc3", "a\xc3(b", "\xe2\x82", "\xf0\x9f\x98", "\xed\xa0\x80", "ok\x80\x81tail", `{"ip":"1.2.3.4"}`, `}`, `]`, `,`, `:`, `//`, `/*`,
	"\\u0041", "\\u0026", "\\u003c", "\\u003e", "a \\u0026 b <&> \\u003cscript\\u003e", "<>&", "\\n", `\\`, "null", "true", " leading and trailing ", "\"}\n{\"ip\":\"6.6.6.6\"",
}

func c14String(p picker, label string) string {
	switch p.n(label+".kind", 10) {
	case 0:
		return strings.Repeat(c14Nasty[p.n(label+".rep", len(c14Nasty))], 1+p.n(label+".n", 3000)) // long
	case 1:
		// random bytes
		n := p.n(label+".len", 24)
		b := make([]byte, n)
		for i := range b {
			b[i] = byte(p.n(label+".b", 256))
		}
		return string(b)
	case 2, 3:
		return c14Nasty[p.n(label+".a", len(c14Nasty))] + c14Nasty[p.n(label+".b2", len(c14Nasty))]
	}
	return c14Nasty[p.n(label+".s", len(c14Nasty))]
}

// utf8Variants: what a JSON text can carry for s (invalid bytes replaced one by one or run-wise).
func utf8Variants(s string) []string {
	if utf8.ValidString(s) {
		return []string{s}
	}
	return []string{string([]rune(s)), strings.ToValidUTF8(s, "\ufffd")}
}

func sameString(got string, want string) bool {
	for _, v := range utf8Variants(want) {
		if got == v {
			return true
		}
	}
	return false
}

// normalise replaces invalid UTF-8 in every string of a decoded JSON value (per byte).
func normJSON(v interface{}, perRun bool) interface{} {
	fix := func(s string) string {
		if utf8.ValidString(s) {
			return s
		}
		if perRun {
			return strings.ToValidUTF8(s, "\ufffd")
		}
		return string([]rune(s))
	}
	switch x := v.(type) {
	case string:
		return fix(x)
	case map[string]interface{}:
		m := map[string]interface{}{}
		for k, e := range x {
			m[fix(k)] = normJSON(e, perRun)
		}
		return m
	case []interface{}:
		out := make([]interface{}, len(x))
		for i, e := range x {
			out[i] = normJSON(e, perRun)
		}
		return out
	}
	return v
}

func c14Map(p picker, depth int) map[string]interface{} {
	m := map[string]interface{}{}
	n := p.n("map.n", 5)
	for i := 0; i < n; i++ {
		k := c14String(p, "map.k")
		if !utf8.ValidString(k) {
			k = fmt.Sprintf("key%d", i) // keys decoded from a server body are valid UTF-8
		}
		switch p.n("map.v", 7) {
		case 0:
			m[k] = float64(p.n("map.num", 1<<30)) / 8
		case 1:
			m[k] = p.bool("map.bool")
		case 2:
			m[k] = nil
		case 3:
			if depth < 3 {
				m[k] = c14Map(p, depth+1)
			} else {
				m[k] = "deep"
			}
		case 4:
			var arr []interface{}
			for j := p.n("map.arr", 4); j > 0; j-- {
				arr = append(arr, strings.ToValidUTF8(c14String(p, "map.arrs"), "?"))
			}
			if arr == nil {
				arr = []interface{}{}
			}
			m[k] = arr
		default:
			m[k] = strings.ToValidUTF8(c14String(p, "map.s"), "\ufffd") // decoded from JSON: always valid UTF-8
		}
	}
	return m
}

type c14Expect struct {
	id    string
	check func(m map[string]interface{}) string // "" = ok
	desc  string
}

func keysExactly(m map[string]interface{}, required []string, optional ...string) string {
	for _, k := range required {
		if _, ok := m[k]; !ok {
			return fmt.Sprintf("documented key %q missing", k)
		}
	}
	for k := range m {
		ok := false
		for _, r := range append(append([]string{}, required...), optional...) {
			if r == k {
				ok = true
			}
		}
		if !ok {
			return fmt.Sprintf("undocumented key %q", k)
		}
	}
	return ""
}

func strField(m map[string]interface{}, k, want string) string {
	got, ok := m[k].(string)
	if !ok {
		return fmt.Sprintf("key %q is not a string: %v", k, m[k])
	}
	if !sameString(got, want) {
		return fmt.Sprintf("key %q decodes to %q, the result holds %q", k, clip(got), clip(want))
	}
	return ""
}

func numField(m map[string]interface{}, k string, want int) string {
	got, ok := m[k].(json.Number)
	if !ok {
		return fmt.Sprintf("key %q is not a number: %v", k, m[k])
	}
	if got.String() != fmt.Sprint(want) {
		return fmt.Sprintf("key %q is %s, the result holds %d", k, got, want)
	}
	return ""
}

func clip(s string) string {
	if len(s) > 60 {
		return s[:40] + fmt.Sprintf("...(%d bytes)", len(s))
	}
	return s
}

func firstNonEmpty(xs ...string) string {
	for _, x := range xs {
		if x != "" {
			return x
		}
	}
	return ""
}

func c14GenResult(p picker, typ string, pool []string) (scan.Result, c14Expect) {
	str := func(label string) string {
		if len(pool) > 0 && p.pct(label+".pool", 50) {
			return pool[p.n(label+".pi", len(pool))]
		}
		return c14String(p, label)
	}
	switch typ {
	case "arp":
		r := &arp.ScanResult{IP: str("ip"), MAC: c14String(p, "mac"), Vendor: c14String(p, "vendor")}
		return r, c14Expect{id: r.IP, desc: fmt.Sprintf("arp{%q %q %q}", clip(r.IP), clip(r.MAC), clip(r.Vendor)), check: func(m map[string]interface{}) string {
			return firstNonEmpty(keysExactly(m, []string{"ip", "mac", "vendor"}), strField(m, "ip", r.IP), strField(m, "mac", r.MAC), strField(m, "vendor", r.Vendor))
		}}
	case "tcp":
		r := &tcp.ScanResult{ScanType: c14String(p, "scan"), IP: str("ip"), Port: uint16(p.pick("port", 0, 1, 80, 65535, p.n("portr", 65536))), Flags: c14String(p, "flags")}
		return r, c14Expect{id: fmt.Sprintf("%s:%d", r.IP, r.Port), desc: fmt.Sprintf("tcp{%q %q %d %q}", clip(r.ScanType), clip(r.IP), r.Port, clip(r.Flags)), check: func(m map[string]interface{}) string {
			e := firstNonEmpty(keysExactly(m, []string{"scan", "ip", "port"}, "flags"), strField(m, "scan", r.ScanType), strField(m, "ip", r.IP), numField(m, "port", int(r.Port)))
			if e != "" {
				return e
			}
			if _, ok := m["flags"]; ok || r.Flags != "" {
				return strField(m, "flags", r.Flags)
			}
			return ""
		}}
	case "icmp":
		r := &icmp.ScanResult{ScanType: c14String(p, "scan"), IP: str("ip"), TTL: uint8(p.n("ttl", 256)), ICMP: &icmp.Response{Type: uint8(p.n("type", 256)), Code: uint8(p.n("code", 256))}}
		return r, c14Expect{id: r.IP, desc: fmt.Sprintf("icmp{%q %q ttl=%d %d/%d}", clip(r.ScanType), clip(r.IP), r.TTL, r.ICMP.Type, r.ICMP.Code), check: func(m map[string]interface{}) string {
			e := firstNonEmpty(keysExactly(m, []string{"scan", "ip", "ttl", "icmp"}), strField(m, "scan", r.ScanType), strField(m, "ip", r.IP), numField(m, "ttl", int(r.TTL)))
			if e != "" {
				return e
			}
			ic, ok := m["icmp"].(map[string]interface{})
			if !ok {
				return "key icmp is not an object"
			}
			return firstNonEmpty(keysExactly(ic, []string{"type", "code"}), numField(ic, "type", int(r.ICMP.Type)), numField(ic, "code", int(r.ICMP.Code)))
		}}
	case "socks":
		r := &socks5.ScanResult{ScanType: c14String(p, "scan"), Version: p.pick("ver", 5, 4, 0, -1, 1<<31-1), IP: str("ip"), Port: uint16(p.n("port", 65536)), Auth: p.bool("auth")}
		return r, c14Expect{id: fmt.Sprintf("%s:%d", r.IP, r.Port), desc: fmt.Sprintf("socks{%q v%d %q %d auth=%v}", clip(r.ScanType), r.Version, clip(r.IP), r.Port, r.Auth), check: func(m map[string]interface{}) string {
			e := firstNonEmpty(keysExactly(m, []string{"scan", "version", "ip", "port"}, "auth"), strField(m, "scan", r.ScanType), numField(m, "version", r.Version), strField(m, "ip", r.IP), numField(m, "port", int(r.Port)))
			if e != "" {
				return e
			}
			a, _ := m["auth"].(bool)
			if a != r.Auth {
				return fmt.Sprintf("key auth is %v, the result holds %v", m["auth"], r.Auth)
			}
			return ""
		}}
	case "elastic":
		r := &elastic.ScanResult{ScanType: c14String(p, "scan"), Proto: c14String(p, "proto"), Host: str("host"), Info: c14Map(p, 0)}
		if p.pct("indexes", 70) {
			r.Indexes = c14Map(p, 1)
		}
		return r, c14Expect{id: r.Host, desc: fmt.Sprintf("elastic{%q %q %q info:%d keys}", clip(r.ScanType), clip(r.Proto), clip(r.Host), len(r.Info)), check: func(m map[string]interface{}) string {
			e := firstNonEmpty(keysExactly(m, []string{"scan", "proto", "host", "info", "indexes"}), strField(m, "scan", r.ScanType), strField(m, "proto", r.Proto), strField(m, "host", r.Host))
			if e != "" {
				return e
			}
			for _, kv := range []struct {
				k string
				v map[string]interface{}
			}{{"info", r.Info}, {"indexes", r.Indexes}} {
				var want interface{}
				if kv.v != nil {
					want = map[string]interface{}(kv.v)
				}
				got := stripNumbers(m[kv.k])
				if !reflect.DeepEqual(got, normJSON(want, false)) && !reflect.DeepEqual(got, normJSON(want, true)) {
					gb, _ := json.Marshal(got)
					wb, _ := json.Marshal(want)
					return fmt.Sprintf("key %q decodes to %s, the result holds %s", kv.k, clip(string(gb)), clip(string(wb)))
				}
			}
			return ""
		}}
	default: // docker
		r := &docker.ScanResult{ScanType: c14String(p, "scan"), Proto: c14String(p, "proto"), Host: str("host")}
		r.Info = dtypes.Info{ID: c14String(p, "d.id"), Name: c14String(p, "d.name"), OperatingSystem: c14String(p, "d.os"), KernelVersion: c14String(p, "d.kernel"), Architecture: c14String(p, "d.arch"), Containers: p.n("d.containers", 1<<20), Labels: []string{c14String(p, "d.label0"), c14String(p, "d.label1")}}
		r.Version = dtypes.Version{Version: c14String(p, "d.version"), APIVersion: c14String(p, "d.api"), GitCommit: c14String(p, "d.git")}
		return r, c14Expect{id: r.Host, desc: fmt.Sprintf("docker{%q %q %q name=%q}", clip(r.ScanType), clip(r.Proto), clip(r.Host), clip(r.Info.Name)), check: func(m map[string]interface{}) string {
			e := firstNonEmpty(keysExactly(m, []string{"scan", "proto", "host", "info", "version"}), strField(m, "scan", r.ScanType), strField(m, "proto", r.Proto), strField(m, "host", r.Host))
			if e != "" {
				return e
			}
			info, ok := m["info"].(map[string]interface{})
			if !ok {
				return "key info is not an object"
			}
			ver, ok := m["version"].(map[string]interface{})
			if !ok {
				return "key version is not an object"
			}
			e = firstNonEmpty(strField(info, "ID", r.Info.ID), strField(info, "Name", r.Info.Name), strField(info, "OperatingSystem", r.Info.OperatingSystem), strField(info, "KernelVersion", r.Info.KernelVersion),
				strField(info, "Architecture", r.Info.Architecture), numField(info, "Containers", r.Info.Containers), strField(ver, "Version", r.Version.Version), strField(ver, "ApiVersion", r.Version.APIVersion), strField(ver, "GitCommit", r.Version.GitCommit))
			if e != "" {
				return e
			}
			labels, ok := info["Labels"].([]interface{})
			if !ok || len(labels) != 2 {
				return fmt.Sprintf("info.Labels decodes to %v", info["Labels"])
			}
			for i, l := range labels {
				s, _ := l.(string)
				if !sameString(s, r.Info.Labels[i]) {
					return fmt.Sprintf("info.Labels[%d] decodes to %q, the result holds %q", i, clip(s), clip(r.Info.Labels[i]))
				}
			}
			return ""
		}}
	}
}

// stripNumbers turns json.Number into float64 (the result maps hold float64).
func stripNumbers(v interface{}) interface{} {
	switch x := v.(type) {
	case json.Number:
		f, _ := x.Float64()
		return f
	case map[string]interface{}:
		m := map[string]interface{}{}
		for k, e := range x {
			m[k] = stripNumbers(e)
		}
		return m
	case []interface{}:
		out := make([]interface{}, len(x))
		for i, e := range x {
			out[i] = stripNumbers(e)
		}
		return out
	}
	return v
}

var c14Types = []string{"arp", "tcp", "icmp", "socks", "elastic", "docker"}

func runC14(t *testing.T, c simrt.Chooser, o Opts) *Out {
	p := picker{c}
	sc := &c14Scenario{}
	sc.Type = c14Types[p.n("type", len(c14Types))]
	mixed := p.pct("mixed", 15)
	if mixed {
		sc.Type = "mixed"
	}
	sc.Results = p.pick("nresults", 0, 1, 2, 5, 20, 60)
	sc.Unique = p.pct("unique", 40)
	sc.ChanCap = p.pick("cap", 0, 1, 1000)
	if p.pct("viarc", 30) {
		// the way the scans hand results over: scan.ResultChan (two buffers and a relay goroutine);
		// small capacities and a stalling output keep it backed up
		sc.ViaRC = true
		sc.ChanCap = p.pick("rccap", 1, 2, 8, 1000)
	}
	nChunks := 0
	if sc.ViaRC && p.pct("chunks", 40) {
		nChunks = 1 + p.n("nchunks", 3)
	}
	flush := []time.Duration{time.Millisecond, 100 * time.Millisecond, time.Second}[p.n("flush", 3)]
	sc.Flush = flush.String()
	var pauseMax time.Duration
	if p.pct("pause", 40) {
		pauseMax = p.dur("pausemax", time.Microsecond, 3*flush)
		sc.PauseMax = pauseMax.String()
	}
	// a slow output (every k-th write stalls for several flush intervals): the flush ticker fires
	// while a write is in progress
	stallEvery, stallFor := 0, time.Duration(0)
	if p.pct("outstall", 30) {
		stallEvery = 1 + p.n("stallevery", 3)
		stallFor = p.dur("stallfor", flush/2, 4*flush)
		sc.OutStall = fmt.Sprintf("every %d writes for %v", stallEvery, stallFor)
	}
	if sc.Unique {
		nChunks = 0 // (the de-duplicating logger is only used by `arp --live`, which is never split)
	}
	for i := 0; i < nChunks; i++ {
		sc.Chunks = append(sc.Chunks, p.dur("chunkend", 0, time.Duration(sc.Results+1)*(pauseMax+stallFor+time.Microsecond)).String())
	}
	// identity pool so that ids repeat in arbitrary patterns
	var pool []string
	for i := p.n("npool", 5); i > 0; i-- {
		pool = append(pool, c14String(p, "pool"))
	}
	var results []scan.Result
	var exps []c14Expect
	bigPopulation := o.Tier == "thorough" && o.Index == 0
	if bigPopulation {
		// de-duplication over a large population: every host of 10.0.0.0/14 once, in order, with a
		// repeat of an earlier host after every eighth one
		sc.Type, sc.Unique, sc.ChanCap, sc.Results = "arp", true, 1000, 0
		sc.ViaRC, sc.Chunks = false, nil
		pauseMax, stallEvery, stallFor = 0, 0, 0
		sc.PauseMax, sc.OutStall = "", ""
		mk := func(a uint32) {
			r := &arp.ScanResult{IP: ipStr(a), MAC: "02:00:00:00:00:01", Vendor: ""}
			results = append(results, r)
			exps = append(exps, c14Expect{id: r.IP, desc: r.IP, check: func(m map[string]interface{}) string { return strField(m, "ip", r.IP) }})
		}
		base := ipU32("10.0.0.0")
		for i := uint32(0); i < 1<<18; i++ {
			mk(base + i)
			if i%8 == 7 {
				mk(base + i/2)
			}
		}
		sc.Results = len(results)
		sc.Samples = []string{"every host of 10.0.0.0/14 + repeats"}
	}
	for i := 0; i < sc.Results && !bigPopulation; i++ {
		typ := sc.Type
		if mixed {
			typ = c14Types[p.n("mtype", len(c14Types))]
		}
		r, e := c14GenResult(p, typ, pool)
		results = append(results, r)
		exps = append(exps, e)
		if len(sc.Samples) < 4 {
			sc.Samples = append(sc.Samples, e.desc)
		}
	}
	out := &Out{Scenario: sc, Stats: map[string]int{"type:" + sc.Type: 1, "results": sc.Results}}
	var iow *simio.World
	done := false
	maxSteps := 300_000
	if bigPopulation {
		maxSteps = 40_000_000
	}
	res := simrt.Execute(t, simrt.Config{Chooser: c, Trace: o.Trace, MaxSteps: maxSteps, NoPreempt: bigPopulation}, func(r *simrt.Run) {
		iow = simio.Install(r)
		iow.StallEvery, iow.StallFor = stallEvery, stallFor
	}, func(r *simrt.Run) {
		ctx, cancel := context.WithCancel(context.Background())
		defer cancel()
		var logger log.Logger
		logger, err := log.NewLogger(simio.Stdout, "c14", log.JSON(), log.FlushInterval(flush))
		if err != nil {
			panic(err)
		}
		if sc.Unique {
			logger = log.NewUniqueLogger(logger)
		}
		if sc.ViaRC {
			rc := scan.NewResultChan(ctx, sc.ChanCap)
			simrt.Go("c14.producer", func() {
				for _, res := range results {
					if pauseMax > 1 && r.ChooseWorld("c14.dopause", 3) == 0 {
						simrt.Sleep("c14.pause", worldDur("c14.pausefor", pauseMax))
					}
					rc.Put(res)
				}
				// everything handed over is printed long before this; the cancel ends the logger
				simrt.Sleep("c14.settle", time.Duration(len(results)+2)*(stallFor+flush)+time.Second)
				simrt.Cancel("c14.cancel", cancel)
			})
			for _, d := range sc.Chunks {
				cctx, ccancel := context.WithCancel(ctx)
				dd := parseDur(d)
				simrt.Go("c14.chunk-end", func() {
					simrt.Sleep("c14.chunk", dd)
					simrt.Cancel("c14.chunk.cancel", ccancel)
				})
				logger.LogResults(cctx, rc.Chan())
				ccancel()
			}
			logger.LogResults(ctx, rc.Chan())
			done = true
			return
		}
		ch := make(chan scan.Result, sc.ChanCap)
		simrt.Go("c14.producer", func() {
			defer simrt.Close("c14.close", ch)
			for _, res := range results {
				if pauseMax > 1 && r.ChooseWorld("c14.dopause", 3) == 0 {
					simrt.Sleep("c14.pause", worldDur("c14.pausefor", pauseMax))
				}
				simrt.Pre("c14.send")
				ch <- res
				simrt.Post()
			}
		})
		logger.LogResults(ctx, ch)
		done = true
	})
	out.Res = &res
	out.Nontrivial = sc.Results >= 1
	out.Key = fmt.Sprintf("%s/%d/%v/%d/%016x/%s", sc.Type, sc.Results, sc.Unique, sc.ChanCap, res.Hash, strings.Join(sc.Samples, "|"))
	sig := sc.Type
	if len(res.Panics) > 0 {
		out.violate("C14.panic", firstLine(res.Panics[0].Value), "panic in %s: %s\n%s", res.Panics[0].G, res.Panics[0].Value, trimStack(res.Panics[0].Stack))
		return out
	}
	if !done {
		out.violate("C14.hang", res.End.String(), "LogResults did not return after the channel was closed: %v; parked %v", res.End, firstN(res.Blocked, 8))
		return out
	}
	// expected printed sequence
	var want []c14Expect
	seen := map[string]bool{}
	for _, e := range exps {
		if sc.Unique {
			if seen[e.id] {
				continue
			}
			seen[e.id] = true
		}
		want = append(want, e)
	}
	if sc.Unique && len(want) < len(exps) {
		simrtProbe(&res, "duplicate-suppressed")
	}
	if bigPopulation {
		simrtProbe(&res, "dedup-262144-hosts")
	}
	// "never split": a record that was begun is completed at the same virtual instant. (What the
	// simulated slow consumer does to one write - take it in two parts - is not the program's doing.)
	outs, _ := iow.Snapshot()
	for i := 0; i+1 < len(outs); i++ {
		d := outs[i].Data
		if outs[i].Part == 0 && len(d) > 0 && d[len(d)-1] != '\n' && outs[i+1].T > outs[i].T {
			out.violate("C14.split", sig, "a record was written in parts %v apart (a reader of the stream sees half a line in between): ...%q at %v, rest at %v", outs[i+1].T-outs[i].T, clip(string(d[max(0, len(d)-60):])), outs[i].T, outs[i+1].T)
			break
		}
	}
	stdout := iow.OutBytes()
	lines, complete := stdoutLines(stdout)
	if !complete {
		out.violate("C14.torn", sig, "output does not end with a newline: ...%q", clip(string(stdout[max(0, len(stdout)-80):])))
		return out
	}
	if len(lines) != len(want) {
		usig := sig + "/count"
		if sc.Unique {
			usig = "unique/count"
		}
		out.violate("C14.line-count", usig, "%d results (%d after de-duplication) but %d output lines; results: %v", len(exps), len(want), len(lines), descs(want, 6))
		return out
	}
	for i, l := range lines {
		dec := json.NewDecoder(strings.NewReader(l))
		dec.UseNumber()
		var m map[string]interface{}
		if err := dec.Decode(&m); err != nil {
			out.violate("C14.not-json", sig, "line %d is not a JSON object (%v): %q for result %s", i, err, clip(l), want[i].desc)
			return out
		}
		if dec.More() {
			out.violate("C14.not-json", sig+"/trailing", "line %d has data after the JSON object: %q", i, clip(l))
			return out
		}
		if e := want[i].check(m); e != "" {
			// is it another result's line (order / de-duplication problem) or an encoding problem?
			kind := "/field"
			for j := range want {
				if j != i && want[j].check(m) == "" {
					kind = "/order"
				}
			}
			out.violate("C14.unfaithful", sig+kind, "line %d does not decode back to result %d %s: %s; line: %q", i, i, want[i].desc, e, clip(l))
			return out
		}
	}
	_ = sort.Strings
	return out
}

func descs(es []c14Expect, n int) []string {
	var out []string
	for _, e := range es {
		out = append(out, e.desc)
	}
	return firstN(out, n)
}

func init() {
	register(&Suite{Name: "C14-json", Prop: "C14", Doc: "real JSON logger (+UniqueLogger) fed with results of all types holding hostile strings; every line decodes back, in order; de-duplication by first sighting", Run: runC14})
}
