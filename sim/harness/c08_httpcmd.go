package harness

import (
	"encoding/json"
	"fmt"
	"sort"
	"strings"
	"testing"
	"time"

	"verif/sim/simnet"
	"verif/sim/simrt"
)

// C08 (command level) for the HTTP based application scans: `sx elastic` / `sx docker` over a
// population of scripted endpoints.  Every behaviour is a pure function of (salt, address), never
// a runtime draw: the endpoints are contacted from goroutines of net/http, which the scheduler does
// not control.

const (
	hbGood = iota
	hbGoodSlow
	hbRefuse
	hbBlackhole
	hbHTML
	hbArray
	hbStallHeaders
	hbCloseAfterRequest
	hbStatus500Object
	hbEmptyObject
	hbCutBody
	hbCount
)

var hbNames = []string{"good", "good-slow", "refuse", "blackhole", "html", "array", "stall-headers", "close-after-request", "status500-object", "empty-object", "cut-body"}

type httpPlan struct {
	kind    string
	salt    uint64
	mix     []int
	timeout time.Duration
	tls     bool
	mu      chan struct{}
	servers map[string]*c10Server
	run     *simrt.Run
}

func (hp *httpPlan) behaviour(addr string) int {
	h := hp.salt
	for _, c := range []byte(addr) {
		h = mix64(h, uint64(c))
	}
	return hp.mix[int(h%uint64(len(hp.mix)))]
}

func (hp *httpPlan) reported(b int) bool {
	switch b {
	case hbGood, hbGoodSlow, hbEmptyObject:
		return true
	case hbStatus500Object:
		return hp.kind == "elastic" // the docker client library treats 5xx as a failure
	}
	return false
}

func (hp *httpPlan) server(addr string) *c10Server {
	<-hp.mu
	defer func() { hp.mu <- struct{}{} }()
	if s, ok := hp.servers[addr]; ok {
		return s
	}
	b := hp.behaviour(addr)
	h := mix64(hp.salt^0xabc, uint64(len(addr))<<32|uint64(b))
	for _, c := range []byte(addr) {
		h = mix64(h, uint64(c))
	}
	obj := fmt.Sprintf(`{"name":%q,"cluster_name":"sim","ID":%q,"Name":%q,"version":{"number":"7.10.2"}}`, "node@"+addr, "ID@"+addr, "host@"+addr)
	primary := &c10Resp{KeepAlive: h>>50%2 == 0, Status: 200, Framing: []string{"length", "chunked", "close"}[h%3], Pieces: 1 + int(h>>8%3), hdrDelay: time.Duration(h>>16%1000)*2*time.Microsecond + 1, pieceDelay: time.Duration(h>>32%1000)*2*time.Microsecond + 1, body: []byte(obj), Verdict: "object"}
	switch b {
	case hbGoodSlow:
		primary.hdrDelay = time.Duration(h>>16%uint64(hp.timeout/4/time.Microsecond))*time.Microsecond + 1
	case hbHTML:
		primary.body = []byte("<html>nope</html>")
	case hbArray:
		primary.body = []byte(`[1,2,3]`)
	case hbStallHeaders:
		primary.Stall = "before-headers"
	case hbCloseAfterRequest:
		primary.Fault = "close-after-request"
	case hbStatus500Object:
		primary.Status = 500
	case hbEmptyObject:
		primary.body = []byte("{}")
	case hbCutBody:
		// Content-Length announces the whole object, the connection is cut after the first half
		primary.Framing, primary.Pieces, primary.Fault = "length", 2, "cut-mid-body"
		primary.body = []byte(fmt.Sprintf(`{"name":"ghost","cluster_name":"ghost","Name":"ghost","ID":"ghost","tagline":%q}`, strings.Repeat("g", 300)))
	}
	secondary := &c10Resp{KeepAlive: h>>51%2 == 0, Status: 200, Framing: "length", Pieces: 1, hdrDelay: 1, pieceDelay: 1, body: []byte(`{"idx":{"aliases":{}},"Version":"20.10.7","ApiVersion":"1.41"}`)}
	if h>>40%4 == 0 {
		secondary.Status, secondary.body = 404, []byte("not found")
	}
	ping := &c10Resp{KeepAlive: h>>52%2 == 0, Status: 200, Framing: "length", body: []byte("OK"), Pieces: 1, hdrDelay: 1, APIVersion: []string{"1.41", "1.40", "1.24"}[h>>44%3]}
	s := &c10Server{run: hp.run, tls: hp.tls}
	s.route = func(method, path string) *c10Resp {
		switch {
		case method == "":
			return nil
		case strings.HasSuffix(path, "/_ping"):
			return ping
		case path == "/" || strings.HasSuffix(path, "/info"):
			return primary
		}
		return secondary
	}
	hp.servers[addr] = s
	return s
}

func (hp *httpPlan) install(n *simnet.Net) {
	n.Lookup = func(addr string) *simnet.Server {
		b := hp.behaviour(addr)
		h := mix64(hp.salt^0x77, uint64(len(addr)))
		for _, c := range []byte(addr) {
			h = mix64(h, uint64(c))
		}
		srv := &simnet.Server{Mode: simnet.Accept, ConnectTime: time.Duration(h%2000)*2*time.Microsecond + 1}
		switch b {
		case hbRefuse:
			srv.Mode = simnet.Refuse
			return srv
		case hbBlackhole:
			srv.Mode = simnet.Blackhole
			return srv
		}
		srv.Handler = hp.server(addr).handle
		return srv
	}
}

type c08HTTPScenario struct {
	Spec    *scanSpec  `json:"spec"`
	World   *WorldSpec `json:"world"`
	Timeout string     `json:"timeout"`
	Mix     []string   `json:"endpoint_behaviours"`
}

func runC08HTTPCmd(t *testing.T, c simrt.Chooser, o Opts) *Out {
	p := picker{c}
	c10ServerTLS()
	maxProbes := 40
	if o.Tier == "thorough" {
		maxProbes = 120
	}
	s := genScan(p, genKnobs{maxProbes: maxProbes, cmds: appCmds[1:], allowExcl: true, allowStdin: true, remotePct: 50})
	s.Workers = p.pick("workers", 1, 2, 7, 100)
	s.JSON = true
	timeout := []time.Duration{200 * time.Millisecond, time.Second, 5 * time.Second}[p.n("timeout", 3)]
	s.Extra = append(s.Extra, "-t", timeout.String())
	hp := &httpPlan{kind: s.Kind, salt: uint64(p.n("salt", 1<<30)), timeout: timeout, servers: map[string]*c10Server{}, mu: make(chan struct{}, 1)}
	hp.mu <- struct{}{}
	if p.pct("https", 30) {
		hp.tls = true
		s.Extra = append(s.Extra, "--proto", "https")
	}
	all := []int{hbGood, hbGood, hbGoodSlow, hbRefuse, hbBlackhole, hbHTML, hbArray, hbStallHeaders, hbCloseAfterRequest, hbStatus500Object, hbEmptyObject, hbCutBody, hbCutBody}
	for i := 2 + p.n("nmix", 5); i > 0; i-- {
		hp.mix = append(hp.mix, all[p.n("mix", len(all))])
	}
	// descriptor budget of the scanner: generous for connections that are closed after use (one per
	// worker plus dials the transport finishes in the background), far too small for one per endpoint
	fdBudget := 0
	if p.pct("fdlimit", 50) {
		fdBudget = 2*s.Workers + 12
		// (a connect to a black-holed address legitimately holds its socket until the kernel gives
		// up, long after the probe timed out - the HTTP transport lets a dial run on in the
		// background; such endpoints are left out of the runs with a descriptor budget)
		var mix []int
		for _, b := range hp.mix {
			if b != hbBlackhole {
				mix = append(mix, b)
			}
		}
		if len(mix) == 0 {
			mix = []int{hbGood}
		}
		hp.mix = mix
	}
	if p.pct("exitdelay", 40) {
		s.ExitDelay = []string{"1ms", "50ms", "2s"}[p.n("ed", 3)]
	}
	delay := 300 * time.Millisecond
	if s.ExitDelay != "" {
		delay = parseDur(s.ExitDelay)
	}
	w := s.world()
	var tcpNet *simnet.Net
	w.tcp = func(n *simnet.Net) { hp.run = simrtCurrent(); hp.install(n); n.MaxOpen = fdBudget; tcpNet = n }
	w.maxVirt = time.Hour
	sc := &c08HTTPScenario{Spec: s, World: w, Timeout: timeout.String()}
	for _, b := range hp.mix {
		sc.Mix = append(sc.Mix, hbNames[b])
	}
	out := &Out{Scenario: sc, Stats: map[string]int{"cmd:" + s.Kind: 1}}
	cr := runCmd(t, c, w, o.Trace)
	out.Res = &cr.Res
	want := s.expected()
	out.Nontrivial = len(want) >= 2
	out.Key = fmt.Sprintf("%s/%s/%v/%d/%v/%016x", s.Kind, s.Mode, hp.tls, len(want), sc.Mix, cr.Res.Hash)
	sig := s.Kind
	if crashOrHang(out, "C08", cr) {
		return out
	}
	if cr.ExecErr != "" {
		out.violate("C08.exec-error", sig, "valid specification refused: %s (argv %v)", cr.ExecErr, w.Argv)
		return out
	}
	// what the endpoints saw
	primaryGets := map[string]int{}
	var lastActivity time.Duration
	for addr, srv := range hp.servers {
		for _, rq := range srv.reqs {
			if rq.Method == "GET" && (rq.Path == "/" || strings.HasSuffix(rq.Path, "/info")) {
				primaryGets[addr]++
			}
			// (the instant a request arrived is a lower bound of the end of its probe; when the server
			// finished sending is not: a client may give up on the first bytes of a non-JSON body)
			if rq.T > lastActivity {
				lastActivity = rq.T
			}
		}
	}
	dials := map[string]int{}
	for _, d := range cr.Dials {
		dials[d.Addr]++
		// (start of the dial: the transport finishes a dial in the background after its probe gave up)
		if d.T > lastActivity {
			lastActivity = d.T
		}
	}
	wantRec := map[string]int{}
	nfail := 0
	for _, k := range sortedProbeKeys(want) {
		n := want[k]
		addr := addrOf(k)
		b := hp.behaviour(addr)
		if dials[addr] == 0 {
			out.violate("C08.not-probed", sig, "argv %v: target %s was never contacted", w.Argv, addr)
			return out
		}
		accepting := b != hbRefuse && b != hbBlackhole
		// a target listed several times is probed concurrently; the probes share one connection slot
		// per host (MaxConnsPerHost = 1), so a later one may time out waiting for the slot of a stalled
		// earlier one without ever sending its request: between 1 and n requests
		if accepting && (primaryGets[addr] > n || primaryGets[addr] < 1 || (n == 1 && primaryGets[addr] != 1)) {
			out.violate("C08.probe-count", sig+"/"+hbNames[b], "argv %v: target %s (%s, listed %d times) received %d primary requests: each target is probed exactly once", w.Argv, addr, hbNames[b], n, primaryGets[addr])
			return out
		}
		if hp.reported(b) {
			host := addr
			if s.Kind == "docker" {
				host = "tcp://" + addr
			}
			wantRec[host] += n
		} else {
			nfail += n
		}
	}
	for _, a := range sortedKeys(dials) {
		var ip [4]int
		var port int
		fmt.Sscanf(a, "%d.%d.%d.%d:%d", &ip[0], &ip[1], &ip[2], &ip[3], &port)
		k := probeKey{uint32(ip[0])<<24 | uint32(ip[1])<<16 | uint32(ip[2])<<8 | uint32(ip[3]), port}
		if want[k] == 0 {
			out.violate("C08.foreign-dial", sig, "argv %v: %s was contacted but is not a target", w.Argv, a)
			return out
		}
	}
	lines, complete := stdoutLines(cr.Stdout)
	if !complete {
		out.violate("C08.torn-record", sig, "stdout does not end with a newline")
	}
	gotRec := map[string]int{}
	proto := "http"
	if hp.tls {
		proto = "https"
	}
	for i, l := range lines {
		var m map[string]interface{}
		if err := json.Unmarshal([]byte(l), &m); err != nil {
			out.violate("C08.torn-record", sig, "stdout line %d is not a JSON object: %q", i, clip(l))
			return out
		}
		if m["scan"] != s.Kind || m["proto"] != proto {
			out.violate("C08.records", sig+"/fields", "record %d says scan=%v proto=%v (want %s %s)", i, m["scan"], m["proto"], s.Kind, proto)
		}
		h, _ := m["host"].(string)
		gotRec[h]++
		// the record carries the object served by that very endpoint
		info, _ := m["info"].(map[string]interface{})
		a := strings.TrimPrefix(h, "tcp://")
		if hp.behaviour(a) != hbEmptyObject {
			key, wantv := "name", "node@"+a
			if s.Kind == "docker" {
				key, wantv = "Name", "host@"+a
			}
			if info[key] != wantv {
				out.violate("C08.records", sig+"/info", "record of %s carries %s=%v, that endpoint served %q: results of concurrent probes are mixed up", h, key, info[key], wantv)
			}
		}
	}
	var diffs []string
	for h, n := range wantRec {
		if n > 1 && gotRec[h] >= 1 && gotRec[h] < n {
			// a target listed n times is probed n times at once, and the probes share one connection
			// slot per host: with a slow endpoint and a short timeout the later ones legitimately run
			// out of time waiting for the slot - each of them is then a failed probe (one error record)
			nfail += n - gotRec[h]
			continue
		}
		if gotRec[h] != n {
			diffs = append(diffs, fmt.Sprintf("%s printed %d times, want %d (%s)", h, gotRec[h], n, hbNames[hp.behaviour(strings.TrimPrefix(h, "tcp://"))]))
		}
	}
	for h, n := range gotRec {
		if wantRec[h] == 0 {
			diffs = append(diffs, fmt.Sprintf("%s printed %d times but its endpoint is %s", h, n, hbNames[hp.behaviour(strings.TrimPrefix(h, "tcp://"))]))
		}
	}
	sort.Strings(diffs)
	if len(diffs) > 0 {
		out.violate("C08.records", sig, "argv %v (timeout %v): %v", w.Argv, timeout, firstN(diffs, 5))
	}
	if len(cr.Errs) != nfail {
		var first string
		if len(cr.Errs) > 0 {
			first = cr.Errs[0].Err
		}
		out.violate("C08.errors", sig, "argv %v: %d error records, %d failed probes (each exactly once); first: %q", w.Argv, len(cr.Errs), nfail, clip(first))
	}
	if cr.ReturnT < lastActivity+delay {
		var evs []string
		for addr, srv := range hp.servers {
			for _, rq := range srv.reqs {
				if rq.T > lastActivity-2*time.Millisecond {
					evs = append(evs, fmt.Sprintf("%v %s %s %s (%s)", rq.T, addr, rq.Method, rq.Path, hbNames[hp.behaviour(addr)]))
				}
			}
		}
		for _, d := range cr.Dials {
			if d.EndT > lastActivity-2*time.Millisecond || d.T > lastActivity-2*time.Millisecond {
				evs = append(evs, fmt.Sprintf("%v..%v dial %s err=%q", d.T, d.EndT, d.Addr, d.Err))
			}
		}
		sort.Strings(evs)
		out.Extra = map[string]interface{}{"late": evs}
		out.violate("C08.early-done", sig, "argv %v: returned at %v, the last request reached an endpoint at %v, exit delay %v; late events: %v", w.Argv, cr.ReturnT, lastActivity, delay, evs)
	}
	// the configured timeout bounds every request: N probes on W workers take at most
	// (N/W + 1) probe bounds (list scheduling), plus the exit delay
	nprobes := 0
	for _, n := range want {
		nprobes += n
	}
	perProbe := timeout + 10*time.Millisecond
	if s.Kind == "elastic" {
		perProbe = 2*timeout + 10*time.Millisecond
	}
	if limit := time.Duration(nprobes/s.Workers+1)*perProbe + delay + time.Millisecond; cr.ReturnT > limit {
		out.violate("C08.time-bound", sig, "argv %v: the scan of %d targets with %d workers took %v; with the configured timeout %v per request it can take at most %v", w.Argv, nprobes, s.Workers, cr.ReturnT, timeout, limit)
	}
	if len(wantRec) > 0 {
		simrtProbe(&cr.Res, "http-endpoint-reported")
	}
	out.Stats["max_open_conns"] = tcpNet.MaxSeen
	return out
}

func init() {
	register(&Suite{Name: "C08-httpcmd", Prop: "C08", Doc: "`sx elastic` / `sx docker` against populations of scripted HTTP(S) endpoints: each target probed once, each outcome reported once", Run: runC08HTTPCmd})
}
