package harness

import (
	"fmt"
	"testing"
	"time"

	"verif/sim/simnet"
	"verif/sim/simrt"
)

// C01 — every specified target is probed exactly once per pass (command level).

type c01Scenario struct {
	Spec   *scanSpec  `json:"spec"`
	World  *WorldSpec `json:"world"`
	Probes int        `json:"expected_probes"`
}

func refuseAll(n *simnet.Net) {
	n.Lookup = func(addr string) *simnet.Server {
		return &simnet.Server{Mode: simnet.Refuse, ConnectTime: 200 * time.Microsecond}
	}
}

// blackholeSome: 40 % of the endpoints never complete the connect, the others refuse it.
func blackholeSome(n *simnet.Net) {
	n.Lookup = func(addr string) *simnet.Server {
		h := uint64(0xb1ac)
		for _, c := range []byte(addr) {
			h = mix64(h, uint64(c))
		}
		if h%5 < 2 {
			return &simnet.Server{Mode: simnet.Blackhole}
		}
		return &simnet.Server{Mode: simnet.Refuse, ConnectTime: 200 * time.Microsecond}
	}
}

// gotProbes extracts the multiset of probes from the wire log (packet scans) or the dial log
// (application scans).
func gotProbes(s *scanSpec, cr *CmdResult) (map[probeKey]int, []string) {
	got := map[probeKey]int{}
	var bad []string
	if s.app() {
		for _, d := range cr.Dials {
			var a, b, c, e, port int
			if _, err := fmt.Sscanf(d.Addr, "%d.%d.%d.%d:%d", &a, &b, &c, &e, &port); err != nil {
				bad = append(bad, "undecodable dial address "+d.Addr)
				continue
			}
			got[probeKey{uint32(a)<<24 | uint32(b)<<16 | uint32(c)<<8 | uint32(e), port}]++
		}
		return got, bad
	}
	// framing follows the interface the socket was opened on: one without a hardware address
	// (loopback here, when the target range lies in 127.0.0.0/8; tun devices) carries raw IP
	rawIP := map[int]bool{}
	for _, sk := range cr.Socks {
		if sk.Iface == "lo" {
			rawIP[sk.ID] = true
		}
	}
	for _, f := range cr.Wire {
		k, _, err := probeOf(s.Kind, f.Data, s.VPN || rawIP[f.Sock])
		if err != nil {
			bad = append(bad, fmt.Sprintf("frame %d undecodable: %v", f.Idx, err))
			continue
		}
		got[k]++
	}
	return got, bad
}

func runC01(t *testing.T, c simrt.Chooser, o Opts) *Out {
	p := picker{c}
	maxProbes := 600
	if o.Tier == "thorough" {
		maxProbes = 3000
		if p.pct("big", 3) {
			maxProbes = 40000
		}
	}
	cmds := packetCmds
	if p.pct("app", 20) {
		cmds = appCmds[:1] // socks; docker and elastic are covered by the HTTP-level suite C01-apphttp
	}
	s := genScan(p, genKnobs{maxProbes: maxProbes, cmds: cmds, allowVPN: true, allowStdin: true, allowExcl: true, chunkedPct: 12, remotePct: 50})
	if p.n("widechunked", 300) == 0 {
		// a scan split into port chunks over a subnet that is larger than the generators' channel
		// buffers: when a chunk ends, address streams of that chunk are still in flight
		s = &scanSpec{Cmd: [][]string{{"tcp"}, {"udp"}, {"tcp", "fin"}}[p.n("widecmd", 3)], Mode: "subnet", JSON: true, GwMAC: gwMAC}
		s.Kind = s.Cmd[0]
		s.Subnet = mkCIDR(ipU32("198.51.100.0")+uint32(p.n("wideoff", 2))*128, 25)
		s.SubnetArg = s.Subnet.String()
		start := 1000 + p.n("widestart", 50000)
		for i, n := 0, 201+p.n("widen", 40); i < n; i++ {
			s.Ports = append(s.Ports, portRange{start + i, start + i})
		}
		simrtFault(&Out{Stats: map[string]int{}}, "wide-chunked")
	}
	if s.app() {
		s.Workers = p.pick("workers", 1, 2, 7, 100, 100, 1000)
	}
	if p.pct("exitdelay", 30) {
		s.ExitDelay = []string{"1ms", "50ms", "2s", "300ms"}[p.n("ed", 4)]
	}
	silent := s.app() && p.pct("silentpeers", 50)
	if silent {
		// many targets never answer the connect: every one of them costs a probe its timeout, none
		// of them may cost the scan a worker
		s.Workers = p.pick("fewworkers", 1, 2, 3, 7)
		s.Extra = append(s.Extra, "-t", "20ms")
	}
	w := s.world()
	w.NumCPU = p.pick("numcpu", 1, 2, 3, 4, 8, 16, 64)
	w.tcp = refuseAll
	if silent {
		w.tcp = blackholeSome
	}
	want := s.expected()
	sc := &c01Scenario{Spec: s, World: w, Probes: s.nprobes()}
	out := &Out{Scenario: sc, Stats: map[string]int{}}
	cr := runCmd(t, c, w, o.Trace)
	out.Res = &cr.Res
	out.Stats["probes"] = sc.Probes
	out.Stats["cmd:"+s.Kind] = 1
	out.Stats["mode:"+s.Mode] = 1
	if len(s.Ports) > 200 {
		simrtProbe(&cr.Res, "chunked-scan")
	}
	if s.FromStdin {
		simrtProbe(&cr.Res, "targets-from-stdin")
	}
	out.Nontrivial = sc.Probes >= 2
	out.Key = fmt.Sprintf("%v/%s/%s/%v/%v/%d/%016x", s.Cmd, s.Mode, s.SubnetArg, s.Ports, s.Exclude, len(s.Entries), cr.Res.Hash)
	if crashOrHang(out, "C01", cr) {
		return out
	}
	sigBase := fmt.Sprintf("%s/%s", s.Kind, s.Mode)
	if s.FromStdin {
		sigBase += "/stdin"
	}
	if s.Mode != "subnet" && len(s.Ports) == 0 && !s.portless() {
		sigBase += "/no-port-ranges"
	}
	if cr.ExecErr != "" {
		out.violate("C01.exec-error", sigBase, "valid specification refused: %s (argv %v)", cr.ExecErr, w.Argv)
		return out
	}
	got, bad := gotProbes(s, cr)
	if len(bad) > 0 {
		out.violate("C01.undecodable", sigBase, "%v", firstN(bad, 5))
	}
	missing, extra := diffMultiset(got, want)
	if len(missing) > 0 || len(extra) > 0 {
		kind := "missing"
		if len(missing) == 0 {
			kind = "extra"
		} else if len(extra) > 0 {
			kind = "missing+extra"
		}
		nports := len(s.portList())
		sig := fmt.Sprintf("%s/%s", sigBase, kind)
		if s.FromStdin && nports > 1 {
			sig += "/multi-port"
		}
		out.violate("C01.multiset", sig, "probes on the wire differ from the specification (argv %v): %d expected, %d sent; missing %v; extra %v",
			w.Argv, sc.Probes, len(cr.Wire)+len(cr.Dials), firstN(missing, 8), firstN(extra, 8))
	}
	if !s.app() && len(cr.Errs) > 0 {
		out.violate("C01.errors", sigBase, "error records for a well-formed specification: %v", cr.Errs[0])
	}
	return out
}

func init() {
	register(&Suite{Name: "C01-coverage", Prop: "C01", Doc: "sx <scan> over generated target specifications; wire/dial multiset vs reference enumeration", Run: runC01})
}
