package harness

import (
	"fmt"
	"testing"
	"time"

	"verif/sim/simrt"
)

// C16 — the exit delay is honoured: late replies are still reported, then the program exits.

var c16Delays = []string{"", "1ms", "7ms", "50ms", "300ms", "1s", "2.5s", "10s", "30s"}

func runC16(t *testing.T, c simrt.Chooser, o Opts) *Out {
	p := picker{c}
	out := &Out{Stats: map[string]int{}}
	if p.pct("app", 20) {
		return runC16App(t, c, o, p, out)
	}
	k := pktKnobs{
		gen:        genKnobs{maxProbes: 120, cmds: packetCmds, allowVPN: true, allowStdin: false, allowExcl: true, chunkedPct: 10, remotePct: 50},
		unsolMax:   6,
		latePct:    25,
		dupPct:     0,
		exitDelays: c16Delays,
		flagIndex:  -1,
	}
	sc := buildPacketScenario(p, o, k)
	sc.plan.alivePct = p.pick("alive2", 50, 100, 100)
	sc.AlivePct = sc.plan.alivePct
	if p.pct("stall", 20) {
		sc.World.NicStallEvery = 1 + p.n("stallevery", 7)
		sc.World.NicStallFor = p.dur("stallfor", time.Microsecond, 20*time.Millisecond).String()
	}
	var outStall time.Duration
	flood := p.pct("replyflood", 2)
	if flood {
		// more replies than the result buffers and any fixed-size pool can hold, printed slowly:
		// 2048 open ports answer at once, stdout needs 1 ms per record, the exit delay is 30 s
		s2 := &scanSpec{Cmd: []string{"tcp", "syn"}, Kind: "tcp", Mode: "subnet", JSON: true, GwMAC: gwMAC, ExitDelay: "30s"}
		s2.Subnet = mkCIDR(ipU32("198.51.96.0"), 21)
		s2.SubnetArg = s2.Subnet.String()
		pt := 1 + p.n("floodport", 65535)
		s2.Ports = []portRange{{pt, pt}}
		w2 := s2.world()
		w2.NumCPU = sc.World.NumCPU
		w2.onWrite, w2.onFilter = sc.World.onWrite, sc.World.onFilter
		sc.Spec, sc.World = s2, w2
		sc.exitDelay, sc.ExitDelay = 30*time.Second, "30s"
		sc.plan.sh = shapeOf(s2)
		sc.plan.alivePct, sc.plan.openPct, sc.plan.maxDelay, sc.plan.latePct, sc.plan.unsol = 100, 100, 50*time.Millisecond, 0, nil
		sc.AlivePct, sc.OpenPct = 100, 100
		outStall = time.Millisecond
		sc.World.OutStallEvery, sc.World.OutStallFor = 1, outStall.String()
		sc.outGrace = 3 * time.Second
		simrtFault(out, "reply-flood")
	} else if sc.exitDelay >= 50*time.Millisecond && p.pct("outstall", 20) {
		// slow stdout: a record may be in the middle of its write when the exit delay ends
		// (slow, but fast enough that everything that can arrive is printed within a quarter of the delay)
		outStall = p.dur("outstallfor", time.Nanosecond, sc.exitDelay/time.Duration(4*(2*sc.Spec.nprobes()+len(sc.plan.unsol)+10)))
		sc.World.OutStallEvery = 1 + p.n("outstallevery", 3)
		sc.World.OutStallFor = outStall.String()
		sc.outGrace = sc.exitDelay / 2
	}
	nReadErrs := 0
	if sc.exitDelay >= 300*time.Millisecond && len(sc.Spec.Ports) <= 200 && p.pct("readerrs", 25) {
		// unknown read errors on the socket while the scan is listening (first 60 % of the exit
		// delay): each is logged and the receiver pauses briefly; the delay itself must not move and
		// replies arriving later in the window must still be reported
		nReadErrs = min(3+p.n("nreaderrs", 10), maxReadErrors(sc.exitDelay))
		injectReadErrors(sc, nReadErrs)
	}
	// the target list cannot be opened: request generation fails at the start of the scan; the error
	// is reported and the scan still ends (after its exit delay at the latest)
	missingFile := false
	vanishingFile := false
	if _, ok := sc.World.Files[targetsFn]; ok && !flood && p.pct("missingfile", 4) {
		if sc.Spec.Mode == "ips-ports" && len(sc.Spec.portList()) >= 2 && p.bool("vanishes") {
			// the address list is opened once per port: it is there for the first port and gone for the next
			sc.World.FileFault = map[string]FileFault{targetsFn: {ErrAt: -1, OpenOnly: 1}}
			vanishingFile = true
		} else {
			delete(sc.World.Files, targetsFn)
			missingFile = true
		}
		simrtFault(out, "target-file-missing")
	}
	out.Scenario = sc
	cr := runPacketScenario(t, c, o, sc)
	out.Res = &cr.Res
	out.Stats["cmd:"+sc.Spec.Kind]++
	out.Stats["replies"] += sc.plan.replies
	out.Nontrivial = len(cr.Wire) >= 1
	out.Key = fmt.Sprintf("%v/%s/%s/%d/%016x", sc.Spec.Cmd, sc.Spec.Mode, sc.ExitDelay, len(cr.Wire), cr.Res.Hash)
	if crashOrHang(out, "C16", cr) {
		return out
	}
	if vanishingFile {
		if cr.ExecErr == "" && len(cr.Errs) == 0 {
			out.violate("C16.silent-failure", sc.Spec.Kind+"/vanished", "argv %v: the target list could not be opened again for the second port, but neither an error record nor a failure status was produced", sc.World.Argv)
		}
		if cr.ReturnT > time.Duration(1+len(sc.Spec.Ports))*sc.exitDelay+time.Second {
			out.violate("C16.late-exit", sc.Spec.Kind+"/vanished-file", "argv %v: returned at %v (exit delay %v)", sc.World.Argv, cr.ReturnT, sc.exitDelay)
		}
		return out
	}
	if missingFile {
		if cr.ExecErr == "" && len(cr.Errs) == 0 {
			out.violate("C16.silent-failure", sc.Spec.Kind, "argv %v: the target list does not exist, but neither an error record nor a failure status was produced", sc.World.Argv)
		}
		if len(cr.Wire) > 0 {
			out.violate("C16.silent-failure", sc.Spec.Kind+"/sent", "argv %v: %d frames sent although the target list could not be opened", sc.World.Argv, len(cr.Wire))
		}
		if cr.ReturnT > time.Duration(1+len(sc.Spec.Ports))*sc.exitDelay+time.Second {
			out.violate("C16.late-exit", sc.Spec.Kind+"/missing-file", "argv %v: returned at %v (exit delay %v)", sc.World.Argv, cr.ReturnT, sc.exitDelay)
		}
		return out
	}
	if cr.ExecErr != "" {
		out.violate("C16.exec-error", sc.Spec.Kind, "valid specification refused: %s (argv %v)", cr.ExecErr, sc.World.Argv)
		return out
	}
	sig := sc.Spec.Kind + "/" + sc.Spec.Mode
	// per socket (= per chunk): it closes exactly exit-delay after its last frame was handed over
	last := map[int]time.Duration{}
	for _, f := range cr.Wire {
		if f.RetT > last[f.Sock] {
			last[f.Sock] = f.RetT
		}
	}
	if len(cr.Socks) > 1 {
		simrtProbe(&cr.Res, "chunked-scan")
	}
	for _, s := range cr.Socks {
		tdone, ok := last[s.ID]
		if !ok {
			tdone = s.OpenT
		}
		if s.CloseT < tdone+sc.exitDelay {
			out.violate("C16.early-exit", sig, "argv %v: socket %d closed at %v, but its last frame left at %v and the exit delay is %v", sc.World.Argv, s.ID, s.CloseT, tdone, sc.exitDelay)
		}
		// (a write that is stalled when the delay ends completes first; the logger may also take a few
		// more queued records before it looks at the cancel)
		lateWrites := 1
		for _, wr := range cr.Out {
			if wr.T > tdone+sc.exitDelay {
				lateWrites++
			}
		}
		if s.CloseT > tdone+sc.exitDelay+time.Duration(lateWrites)*outStall && ok {
			out.violate("C16.late-exit", sig, "argv %v: socket %d closed at %v, %v after its last frame left (exit delay %v)", sc.World.Argv, s.ID, s.CloseT, s.CloseT-tdone, sc.exitDelay)
		}
	}
	if n := len(cr.Socks); n > 0 && cr.ReturnT != cr.Socks[n-1].CloseT {
		out.violate("C16.late-exit", sig+"/return", "command returned at %v, the last socket closed at %v", cr.ReturnT, cr.Socks[n-1].CloseT)
	}
	// everything that arrived within the delay is on stdout, as complete records
	oracleDetection(out, "C16", sc, cr)
	return out
}

type c16AppScenario struct {
	Spec      *scanSpec  `json:"spec"`
	World     *WorldSpec `json:"world"`
	ExitDelay string     `json:"exit_delay"`
	Latency   string     `json:"server_latency_below"`
}

func runC16App(t *testing.T, c simrt.Chooser, o Opts, p picker, out *Out) *Out {
	s := genScan(p, genKnobs{maxProbes: 80, cmds: appCmds[:1], allowExcl: true, remotePct: 50})
	s.Workers = p.pick("workers", 1, 3, 100)
	s.ExitDelay = c16Delays[p.n("exitdelay", len(c16Delays))]
	delay := 300 * time.Millisecond
	if s.ExitDelay != "" {
		delay = parseDur(s.ExitDelay)
	}
	s.JSON = true
	w := s.world()
	sp := &socksPlan{salt: uint64(p.n("salt", 1<<30)), mix: []int{sbProxy, sbProxy, sbAuth, sbRefuse, sbCloseAfter, sbGarbage}, latMax: p.dur("latmax", time.Millisecond, time.Second), connMax: 20 * time.Millisecond}
	w.tcp = sp.install
	sc := &c16AppScenario{Spec: s, World: w, ExitDelay: delay.String(), Latency: sp.latMax.String()}
	out.Scenario = sc
	cr := runCmd(t, c, w, o.Trace)
	out.Res = &cr.Res
	out.Stats["cmd:socks"]++
	out.Nontrivial = len(cr.Dials) >= 1
	out.Key = fmt.Sprintf("socks/%s/%s/%d/%016x", s.Mode, sc.ExitDelay, len(cr.Dials), cr.Res.Hash)
	if crashOrHang(out, "C16", cr) {
		return out
	}
	if cr.ExecErr != "" {
		out.violate("C16.exec-error", "socks", "valid specification refused: %s (argv %v)", cr.ExecErr, w.Argv)
		return out
	}
	// the last probe ends when its connection is closed by the scanner; the server observes that.
	var lastEnd time.Duration
	for _, d := range cr.Dials {
		if d.EndT > lastEnd {
			lastEnd = d.EndT
		}
	}
	if cr.ReturnT < lastEnd+delay {
		out.violate("C16.early-exit", "socks/"+s.Mode, "argv %v: returned at %v, last connection attempt finished at %v, exit delay %v", w.Argv, cr.ReturnT, lastEnd, delay)
	}
	// upper bound: a probe lasts at most connect + 3 x data timeout (2 s each by default) after its dial
	if cr.ReturnT > lastEnd+delay+3*2*time.Second+time.Second {
		out.violate("C16.late-exit", "socks/"+s.Mode, "argv %v: returned at %v, last dial finished at %v, exit delay %v", w.Argv, cr.ReturnT, lastEnd, delay)
	}
	// every positive endpoint is on stdout
	want := map[string]int{}
	for k, n := range s.expected() {
		if sbPositive(sp.behaviour(addrOf(k))) {
			want[addrOf(k)] += n
		}
	}
	got := map[string]int{}
	lines, complete := stdoutLines(cr.Stdout)
	if !complete {
		out.violate("C16.incomplete-record", "socks", "stdout does not end with a newline")
	}
	for _, l := range lines {
		var ip string
		var port int
		if r, err := parseSocksJSON(l); err == nil {
			ip, port = r.IP, r.Port
		} else {
			out.violate("C16.incomplete-record", "socks", "unparsable record %q: %v", l, err)
			continue
		}
		got[fmt.Sprintf("%s:%d", ip, port)]++
	}
	for _, a := range sortedKeys(want) {
		n := want[a]
		if got[a] != n {
			out.violate("C16.missed", "socks/"+s.Mode, "argv %v: proxy %s detected before completion but printed %d times (want %d)", w.Argv, a, got[a], n)
			break
		}
	}
	return out
}

func init() {
	register(&Suite{Name: "C16-exitdelay", Prop: "C16", Doc: "exit delays 1ms..30s: socket/command lifetime vs last probe, late replies still reported", Run: runC16})
}
