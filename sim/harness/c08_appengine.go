package harness

import (
	"context"
	"encoding/json"
	"fmt"
	"sort"
	"strings"
	"testing"
	"time"

	"github.com/v-byte-cpu/sx/command"
	"github.com/v-byte-cpu/sx/command/log"
	"github.com/v-byte-cpu/sx/pkg/scan"
	"go.uber.org/ratelimit"

	"verif/sim/simio"
	"verif/sim/simrt"
)

// C08 (library level) — real GenericEngine + ResultChan + (optional) rate-limited scanner +
// real startScanEngine + real JSON logger, with a recording Scanner and a simulated generator.

type c08Scenario struct {
	Requests  int    `json:"requests"`
	Workers   int    `json:"workers"`
	ReqErrs   int    `json:"error_requests"`
	Positive  int    `json:"positive_pct"`
	Failing   int    `json:"failing_pct"`
	LatMax    string `json:"probe_latency_below"`
	Rate      string `json:"rate,omitempty"`
	ExitDelay string `json:"exit_delay"`
	ResultCap int    `json:"result_capacity"`
	GenErr    bool   `json:"generator_fails_to_start"`
	OutStall  string `json:"stdout_stall,omitempty"`
}

type c08Result struct {
	N int `json:"n"`
}

func (r *c08Result) String() string               { return fmt.Sprintf("result %d", r.N) }
func (r *c08Result) ID() string                   { return fmt.Sprint(r.N) }
func (r *c08Result) MarshalJSON() ([]byte, error) { return json.Marshal(struct{ N int `json:"n"` }{r.N}) }

type c08Scanner struct {
	run      *simrt.Run
	salt     uint64
	sc       *c08Scenario
	latMax   time.Duration
	calls    map[int]int
	inflight int
	maxInfl  int
	lastRet  time.Duration
}

func (s *c08Scanner) outcome(id int) int { // 0 positive, 1 negative, 2 error
	h := int(mix64(s.salt, uint64(id)) % 100)
	switch {
	case h < s.sc.Positive:
		return 0
	case h < s.sc.Positive+s.sc.Failing:
		return 2
	}
	return 1
}

func (s *c08Scanner) Scan(ctx context.Context, r *scan.Request) (scan.Result, error) {
	simrt.Pre("c08.scan")
	id := int(r.DstPort) | r.Meta["hi"].(int)<<16
	s.calls[id]++
	s.inflight++
	if s.inflight > s.maxInfl {
		s.maxInfl = s.inflight
	}
	if d := worldDur("c08.lat", s.latMax); d > 1 {
		simrt.Sleep("c08.scan.lat", d)
	}
	s.inflight--
	s.lastRet = s.run.Now()
	switch s.outcome(id) {
	case 0:
		return &c08Result{N: id}, nil
	case 2:
		return nil, &idErr{"probe", id}
	}
	return nil, nil
}

func runC08(t *testing.T, c simrt.Chooser, o Opts) *Out {
	p := picker{c}
	sc := &c08Scenario{}
	sc.Requests = p.n("nreq", 80)
	switch p.n("size", 6) {
	case 0:
		sc.Requests = p.n("nreq0", 3)
	case 1:
		sc.Requests = 1001 + p.n("nreq2", 500) // beyond the 1000-slot result buffer
	}
	sc.Workers = p.pick("workers", 1, 2, 3, 7, 100, 1000)
	sc.Positive = p.pick("pos", 0, 10, 50, 100)
	sc.Failing = p.pick("fail", 0, 10, 50, 100)
	if sc.Positive+sc.Failing > 100 {
		sc.Failing = 100 - sc.Positive
	}
	sc.ReqErrs = p.pick("reqerrs", 0, 0, 1, 5, 150)
	if sc.ReqErrs > sc.Requests {
		sc.ReqErrs = sc.Requests
	}
	latMax := p.dur("latmax", 1, 200*time.Millisecond)
	if p.pct("nolat", 30) {
		latMax = 1
	}
	sc.LatMax = latMax.String()
	sc.ResultCap = p.pick("rescap", 1000, 1000, 1, 10)
	delay := p.dur("delay", 300*time.Millisecond, 2*time.Second) // "exit delay at its default or larger"
	sc.ExitDelay = delay.String()
	var lim scan.RateLimiter
	if p.pct("rate", 25) && sc.Requests <= 200 {
		n := 1 + p.n("raten", 2000)
		w := []time.Duration{time.Millisecond, time.Second, 100 * time.Millisecond}[p.n("ratew", 3)]
		sc.Rate = fmt.Sprintf("%d per %v", n, w)
		lim = ratelimit.New(n, ratelimit.Per(w))
	}
	sc.GenErr = p.pct("generr", 3)
	var outStall time.Duration
	if p.pct("outstall", 20) {
		outStall = p.dur("outstallfor", time.Microsecond, time.Duration(int64(delay)/int64(sc.Requests+2)/2+1))
		sc.OutStall = outStall.String()
	}
	if p.pct("backpressure", 12) {
		// Back-pressure variant: tiny result buffers, few workers, every probe positive and an output
		// that needs longer than the exit delay for ALL results but not for what the buffers can hold.
		// While workers block handing over results, completion is not signalled; at completion at
		// most 2 x capacity + a few results are pending, and those still drain within the delay.
		sc.ResultCap = p.pick("bpcap", 1, 10)
		sc.Workers = p.pick("bpworkers", 1, 2, 7)
		sc.Requests = 300 + p.n("bpreq", 700)
		sc.Positive, sc.Failing, sc.ReqErrs, sc.GenErr = 100, 0, 0, false
		latMax = 1
		sc.LatMax = latMax.String()
		lim, sc.Rate = nil, ""
		outStall = delay / time.Duration(4*(2*sc.ResultCap+sc.Workers+6))
		sc.OutStall = outStall.String()
		simrtFault(&Out{Stats: map[string]int{}}, "stdout-stall")
	}
	out := &Out{Scenario: sc, Stats: map[string]int{}}

	reqErr := map[int]bool{}
	for i := 0; i < sc.ReqErrs; i++ {
		reqErr[p.n("reqerrpos", max(1, sc.Requests))] = true
	}
	var reqs []*scan.Request
	for i := 0; i < sc.Requests; i++ {
		r := &scan.Request{DstPort: uint16(i), Meta: map[string]interface{}{"hi": i >> 16}}
		if reqErr[i] {
			r.Err = &idErr{"request", i}
		}
		reqs = append(reqs, r)
	}
	gen := &c07ReqGen{sc: &c07Scenario{ReqChanCap: p.pick("reqcap", 0, 1, 100)}, reqs: reqs}
	if sc.GenErr {
		gen.start = &idErr{"generator", 0}
	}
	var scn *c08Scanner
	var iow *simio.World
	returned := false
	var retT time.Duration
	res := simrt.Execute(t, simrt.Config{Chooser: c, Trace: o.Trace, MaxSteps: 1_500_000}, func(r *simrt.Run) {
		iow = simio.Install(r)
		if outStall > 0 {
			iow.StallEvery, iow.StallFor = 1, outStall
		}
	}, func(r *simrt.Run) {
		ctx, cancel := context.WithCancel(context.Background())
		defer cancel()
		scn = &c08Scanner{run: r, salt: uint64(p.n("salt", 1<<30)), sc: sc, latMax: latMax, calls: map[int]int{}}
		var scanner scan.Scanner = scn
		if lim != nil {
			scanner = scan.NewRateLimitScanner(scn, lim)
		}
		results := scan.NewResultChan(ctx, sc.ResultCap)
		engine := scan.NewScanEngine(gen, scanner, results, scan.WithScanWorkerCount(sc.Workers))
		logger, err := log.NewLogger(simio.Stdout, "c08", log.JSON())
		if err != nil {
			panic(err)
		}
		if err := command.SimStartScanEngine(ctx, engine, logger, delay); err != nil {
			panic(err)
		}
		returned = true
		retT = r.Now()
	})
	out.Res = &res
	out.Stats["requests"] += sc.Requests
	out.Nontrivial = sc.Requests >= 2
	out.Key = fmt.Sprintf("%d/%d/%d/%d/%d/%016x", sc.Requests, sc.Workers, sc.Positive, sc.Failing, sc.ReqErrs, res.Hash)
	sig := fmt.Sprintf("w%d", min(sc.Workers, 2))
	if len(res.Panics) > 0 {
		out.violate("C08.panic", firstLine(res.Panics[0].Value), "panic in %s: %s\n%s", res.Panics[0].G, res.Panics[0].Value, trimStack(res.Panics[0].Stack))
		return out
	}
	if !returned {
		out.violate("C08.hang", res.End.String(), "scan did not complete: %v; parked %v", res.End, firstN(res.Blocked, 12))
		return out
	}
	// reference
	var wantRes, wantErrs []string
	wantCalls := 0
	if sc.GenErr {
		wantErrs = append(wantErrs, gen.start.Error())
	} else {
		for i := range reqs {
			if reqErr[i] {
				wantErrs = append(wantErrs, (&idErr{"request", i}).Error())
				continue
			}
			wantCalls++
			switch scn.outcome(i) {
			case 0:
				wantRes = append(wantRes, fmt.Sprintf(`{"n":%d}`, i))
			case 2:
				wantErrs = append(wantErrs, (&idErr{"probe", i}).Error())
			}
		}
	}
	ncalls := 0
	var callIDs []int
	for id := range scn.calls {
		callIDs = append(callIDs, id)
	}
	sort.Ints(callIDs)
	for _, id := range callIDs {
		n := scn.calls[id]
		ncalls += n
		if n != 1 {
			out.violate("C08.probe-twice", sig, "request %d was probed %d times", id, n)
			break
		}
		if id < len(reqs) && reqErr[id] {
			out.violate("C08.error-request-probed", sig, "request %d carries an error but was probed", id)
		}
	}
	if ncalls != wantCalls {
		out.violate("C08.probe-count", sig, "%d probes for %d error-free requests (workers %d)", ncalls, wantCalls, sc.Workers)
	}
	lines, complete := stdoutLines(iow.OutBytes())
	if !complete {
		out.violate("C08.torn-record", sig, "stdout does not end with a newline")
	}
	sort.Strings(lines)
	sort.Strings(wantRes)
	if !eqStrs(lines, wantRes) {
		out.violate("C08.records", sig, "%d records printed, %d probes detected a service (each must be printed exactly once before exit): first printed %v, first expected %v", len(lines), len(wantRes), firstN(lines, 5), firstN(wantRes, 5))
	}
	_, errRecs := iow.Snapshot()
	var gotErrs []string
	for _, e := range errRecs {
		gotErrs = append(gotErrs, e.Err)
	}
	sort.Strings(gotErrs)
	sort.Strings(wantErrs)
	if !eqStrs(gotErrs, wantErrs) {
		out.violate("C08.errors", sig, "%d error records, %d failed probes/requests (each exactly once): first got %v, first expected %v", len(gotErrs), len(wantErrs), firstN(gotErrs, 5), firstN(wantErrs, 5))
	}
	// completion only after all probes finished: the scan returns exit-delay after the last probe
	if !sc.GenErr && wantCalls > 0 && retT < scn.lastRet+delay {
		out.violate("C08.early-done", sig, "returned at %v, the last probe finished at %v, exit delay %v", retT, scn.lastRet, delay)
	}
	if scn.inflight != 0 {
		out.violate("C08.early-done", sig+"/inflight", "%d probes still in flight when the scan returned", scn.inflight)
	}
	if len(wantRes) > 1000 {
		simrtProbe(&res, "results-over-1000")
	}
	if len(wantErrs) > 100 {
		simrtProbe(&res, "errors-over-100")
	}
	if scn.maxInfl >= 100 {
		simrtProbe(&res, "100-probes-in-flight")
	}
	_ = strings.Join
	return out
}

func init() {
	register(&Suite{Name: "C08-engine", Prop: "C08", Doc: "real GenericEngine/ResultChan/startScanEngine/logger with recording scanner; workers 1..1000, >1000 results, >100 errors", Run: runC08})
}
