package harness

import (
	"fmt"
	"strings"
	"testing"
	"time"

	"verif/sim/simrt"
)

// C12 — Ctrl-C at any moment ends the scan cleanly and promptly (command level).

type c12Scenario struct {
	Pkt        *pktScenario    `json:"packet,omitempty"`
	App        *c16AppScenario `json:"app,omitempty"`
	SigintStep int             `json:"sigint_step,omitempty"`
	SigintAt   string          `json:"sigint_at,omitempty"`
	Bound      string          `json:"return_bound_after_sigint"`
	Block      int             `json:"enumeration_block,omitempty"`
}

const c12BlockSize = 1500

func runC12(t *testing.T, c simrt.Chooser, o Opts) *Out {
	// Enumeration part (thorough): blocks of c12BlockSize consecutive run indexes share one base
	// scenario and schedule (same chooser seed); the index within the block is the scheduling
	// step at which Ctrl-C is delivered: every cancel point of that execution is tried.
	enumBlocks := 0
	if o.Tier == "thorough" {
		enumBlocks = 24
	}
	if o.Index < enumBlocks*c12BlockSize {
		block := o.Index / c12BlockSize
		if _, isSeed := c.(*simrt.SeedChooser); isSeed {
			c = newBlockChooser(c.(*simrt.SeedChooser), uint64(block)*0x9e3779b97f4a7c15+77)
		}
		return runC12With(t, c, o, 1+o.Index%c12BlockSize, block)
	}
	return runC12With(t, c, o, -1, -1)
}

// newBlockChooser replaces the generators of a SeedChooser so that all runs of a block draw the
// same values (the record still ends up in the worker's chooser, so replay is unchanged).
func newBlockChooser(orig *simrt.SeedChooser, seed uint64) simrt.Chooser {
	*orig = *simrt.NewSeedChooser(seed)
	return orig
}

func runC12With(t *testing.T, c simrt.Chooser, o Opts, forcedStep int, block int) *Out {
	p := picker{c}
	out := &Out{Stats: map[string]int{}}
	sc := &c12Scenario{Block: block + 1}
	out.Scenario = sc
	var w *WorldSpec
	bound := time.Millisecond // epsilon
	var limiterInterval, nicStall, outStall time.Duration
	workers := 1
	estSteps := 400
	var estDur time.Duration
	isApp := p.pct("app", 30)
	forceTime := false
	var ps *pktScenario
	if isApp {
		s := genScan(p, genKnobs{maxProbes: 60, cmds: appCmds[:1], allowExcl: true, remotePct: 50})
		s.Workers = p.pick("workers", 1, 2, 7, 100)
		s.JSON = p.bool("json")
		s.ExitDelay = []string{"", "1s", "20ms"}[p.n("ed", 3)]
		if p.pct("rate", 30) {
			arg, n, win := genRate(p)
			s.Rate = arg
			limiterInterval = win / time.Duration(n)
			estDur += time.Duration(s.nprobes()) * win / time.Duration(n)
		}
		flood := p.pct("flood", 3)
		if flood {
			// result flood: more positive probes than both 1000-slot result buffers plus the workers can
			// hold while stdout is slow - workers are blocked handing over results when Ctrl-C comes
			s.Mode, s.Entries, s.Exclude, s.FromStdin, s.Rate = "subnet", nil, nil, false, ""
			s.Subnet = mkCIDR(ipU32("198.51.96.0"), 22)
			s.SubnetArg = s.Subnet.String()
			lo := 1 + p.n("floodport", 60000)
			s.Ports = []portRange{{lo, lo + 2}}
			s.Workers = 100
			limiterInterval = 0
			simrtFault(out, "result-flood")
		}
		workers = min(s.Workers, s.nprobes())
		w = s.world()
		if flood {
			w.OutStallEvery = 1
			outStall = p.dur("floodstall", time.Millisecond, 4*time.Millisecond)
			w.OutStallFor = outStall.String()
		}
		sp := &socksPlan{salt: uint64(p.n("salt", 1<<30)), mix: []int{sbProxy, sbProxy, sbAuth, sbRefuse, sbCloseAfter, sbSilent, sbOneByte, sbBlackhole, sbFlood, sbReset}, latMax: p.dur("latmax", time.Microsecond, 300*time.Millisecond), connMax: 30 * time.Millisecond}
		if flood {
			sp.mix = []int{sbProxy}
			sp.latMax, sp.connMax = 50*time.Microsecond, 50*time.Microsecond
		}
		stalledStream := false
		if !flood && p.pct("stalledstream", 12) {
			// the request stream stalls: the target list comes from a pipe whose writer pauses for an
			// hour part-way; workers sit idle on an open but empty request channel when Ctrl-C comes
			if data, ok := w.Files[targetsFn]; ok && len(data) > 2 {
				w.FileFault = map[string]FileFault{targetsFn: {ErrAt: -1, StallAt: 1 + p.n("stallat", len(data)-1), StallFor: "1h"}}
				stalledStream = true
			} else if w.Stdin != nil && len(*w.Stdin) > 2 && s.FromStdin {
				w.FileFault = map[string]FileFault{"-": {ErrAt: -1, StallAt: 1 + p.n("stallat", len(*w.Stdin)-1), StallFor: "1h"}}
				stalledStream = true
			}
			if stalledStream {
				simrtFault(out, "request-stream-stall")
			}
		}
		w.tcp = sp.install
		sc.App = &c16AppScenario{Spec: s, World: w}
		estSteps = 60*s.nprobes() + 300
		estDur += 7 * time.Second
		if flood {
			estDur = 800 * time.Millisecond
		}
		if stalledStream {
			estDur = 20 * time.Second // well inside the hour-long stall, after the probes of the first part are over
			forceTime = true
		}
	} else {
		k := pktKnobs{
			gen:        genKnobs{maxProbes: 120, cmds: packetCmds, allowVPN: true, allowExcl: true, chunkedPct: 8, remotePct: 50},
			unsolMax:   10,
			dupPct:     10,
			exitDelays: []string{"", "", "1s", "5ms", "30s"},
			flagIndex:  -1,
		}
		ps = buildPacketScenario(p, o, k)
		if p.pct("rate", 30) {
			arg, n, win := genRate(p)
			ps.Spec.Rate = arg
			w2 := ps.Spec.world()
			w2.NumCPU, w2.onWrite, w2.onFilter = ps.World.NumCPU, ps.World.onWrite, ps.World.onFilter
			ps.World = w2
			limiterInterval = win / time.Duration(n)
			estDur += time.Duration(ps.Spec.nprobes()) * win / time.Duration(n)
		}
		w = ps.World
		if data, ok := w.Files[targetsFn]; ok && ps.Spec.Mode == "pairs" && p.pct("badlines", 40) {
			// bad target-list lines: error records travel through the pipeline next to the frames
			// and are queued in front of the sender when Ctrl-C comes
			ls := strings.Split(strings.TrimSuffix(data, "\n"), "\n")
			for i := 1 + p.n("nbad", 20); i > 0; i-- {
				k := p.n("badpos", len(ls)+1)
				ls = append(ls[:k], append([]string{`{"ip":"10.0.0.300","port":80}`}, ls[k:]...)...)
			}
			w.Files[targetsFn] = strings.Join(ls, "\n") + "\n"
			simrtFault(out, "bad-target-lines")
		}
		if p.pct("nicstall", 30) {
			w.NicStallEvery = 1 + p.n("stallevery", 6)
			d := p.dur("stallfor", time.Microsecond, 50*time.Millisecond)
			blocked := p.pct("nicblocked", 25) && forcedStep == 0
			if blocked {
				d = time.Hour // a NIC queue that does not drain at all: the user hits Ctrl-C
				forceTime = true
			}
			w.NicStallFor = d.String()
			nicStall = d
			if !blocked {
				estDur += time.Duration(ps.Spec.nprobes()) * d
			}
		}
		if p.pct("nicerr", 15) {
			w.NicErrEvery = 1 + p.n("errevery", 3) // error bursts: more errors than the 100-slot buffers
		}
		if p.pct("outstall", 25) {
			w.OutStallEvery = 1 + p.n("ostallevery", 4)
			d := p.dur("ostallfor", time.Microsecond, 20*time.Millisecond)
			w.OutStallFor = d.String()
			outStall = d
		}
		ps.plan.alivePct = p.pick("alive2", 0, 100, 100)
		sc.Pkt = ps
		estSteps = 25*ps.Spec.nprobes() + 300
		estDur += ps.exitDelay * time.Duration(1+len(ps.Spec.Ports)/200)
	}
	w.CloseWakes = p.bool("closewakes")
	switch {
	case forcedStep > 0:
		w.SigintStep = forcedStep
	case p.pct("attime", 35) || (sc.App != nil && outStall > 0) || forceTime:
		w.SigintAt = p.dur("sigat", 1, estDur+time.Millisecond).String()
	default:
		w.SigintStep = 1 + p.n("sigstep", estSteps)
	}
	sc.SigintStep, sc.SigintAt, sc.Bound = w.SigintStep, w.SigintAt, bound.String()
	w.maxVirt = 10 * time.Hour
	cr := runCmd(t, c, w, o.Trace)
	out.Res = &cr.Res
	fired := cr.Res.SigFired
	kind := "socks"
	if ps != nil {
		kind = ps.Spec.Kind
	}
	out.Stats["cmd:"+kind]++
	if fired {
		out.Stats["sigint-fired"]++
		phase := "sending"
		if len(cr.Wire)+len(cr.Dials) == 0 {
			phase = "before-first-probe"
		} else if ps != nil && len(cr.Wire) == ps.Spec.nprobes() {
			phase = "exit-delay"
		}
		simrtProbe(&cr.Res, "cancel-"+phase)
	}
	out.Nontrivial = fired
	out.Key = fmt.Sprintf("%s/%d/%s/%016x", kind, cr.Res.SigStep, cr.Res.SigTime, cr.Res.Hash)
	sig := kind
	if len(cr.Res.Panics) > 0 {
		pn := cr.Res.Panics[0]
		out.violate("C12.panic", sig+"/"+firstLine(pn.Value), "argv %v, Ctrl-C at step %d (t=%v): panic in goroutine %s at %s: %s\n%s", w.Argv, cr.Res.SigStep, cr.Res.SigTime, pn.G, pn.Site, pn.Value, trimStack(pn.Stack))
		return out
	}
	if !cr.Returned {
		out.violate("C12.no-return", sig+"/"+cr.Res.End.String(), "argv %v, Ctrl-C at step %d (t=%v): the command did not return (%v at %v after %d steps); parked: %v", w.Argv, cr.Res.SigStep, cr.Res.SigTime, cr.Res.End, cr.Res.Virt, cr.Res.Steps, firstN(cr.Res.Blocked, 14))
		return out
	}
	if fired {
		// Work that was already queued may still be taken after the cancel (a select with both the
		// cancel and a queued item ready picks either), one item at a time; every such item may
		// meet a stall / a limiter interval.  A worker may hold one limiter reservation.
		nAfter, recAfter := 0, 0
		for _, f := range cr.Wire {
			if f.Step > cr.Res.SigStep || f.T > cr.Res.SigTime {
				nAfter++
			}
		}
		for _, wr := range cr.Out {
			if wr.Step > cr.Res.SigStep || wr.T > cr.Res.SigTime {
				recAfter++
			}
		}
		dialsAfter := 0
		for _, d := range cr.Dials {
			if d.Step > cr.Res.SigStep || d.T > cr.Res.SigTime {
				dialsAfter++
			}
		}
		if ps != nil {
			// the scan call does not wait for the sender: a frame write that is stalled (or waits for
			// its turn at the limiter) when Ctrl-C comes finishes on its own, after the call returned
			// (an implementation that lets the write in flight complete is within "bounded time" as
			// long as that write is: one ordinary stall is allowed for, a NIC that is blocked for an
			// hour is not something the call may wait for)
			if nicStall < time.Second {
				bound += nicStall + limiterInterval
			}
			bound += time.Duration(recAfter+1) * outStall
		} else {
			bound += time.Duration(workers+dialsAfter)*limiterInterval + time.Duration(recAfter+1)*outStall
			nAfter = dialsAfter - workers
		}
		sc.Bound = bound.String()
		if nAfter > 64 {
			out.violate("C12.keeps-sending", sig, "argv %v: %d probes left after Ctrl-C (step %d, t=%v)", w.Argv, nAfter, cr.Res.SigStep, cr.Res.SigTime)
		}
		if late := cr.ReturnT - cr.Res.SigTime; late > bound {
			out.violate("C12.slow-return", sig, "argv %v: Ctrl-C at t=%v (step %d), the command returned %v later (bound %v: longest stall / limiter interval in flight)", w.Argv, cr.Res.SigTime, cr.Res.SigStep, late, bound)
		}
		// (No bound on the number of scheduling steps after the cancel: how much bookkeeping the
		// program does on its way out - generator loops running through the rest of the range,
		// remaining port chunks opening and closing their sockets - is not part of the property;
		// a program that never gets there hits the step cap and is reported as no-return.)
		out.Stats["steps-after-cancel"] += cr.Res.Steps - cr.Res.SigStep
	}
	// everything written is a sequence of complete records
	lines, complete := stdoutLines(cr.Stdout)
	if !complete {
		out.violate("C12.torn-record", sig, "argv %v: stdout does not end with a newline: ...%q", w.Argv, tail(cr.Stdout, 80))
	}
	jsonMode := (ps != nil && ps.Spec.JSON) || (sc.App != nil && sc.App.Spec.JSON)
	for i, l := range lines {
		var err error
		switch {
		case ps != nil && jsonMode:
			_, err = parseRecordJSON(ps.Spec.Kind, l)
		case ps != nil:
			_, err = parseRecordPlain(ps.plan.sh, l)
		case jsonMode:
			_, err = parseSocksJSON(l)
		}
		if err != nil {
			out.violate("C12.torn-record", sig, "argv %v: stdout line %d is not a complete record: %q (%v)", w.Argv, i, l, err)
			break
		}
	}
	return out
}

func tail(b []byte, n int) []byte {
	if len(b) > n {
		return b[len(b)-n:]
	}
	return b
}

func init() {
	register(&Suite{Name: "C12-cancel", Prop: "C12", Doc: "Ctrl-C at a scheduling step / virtual instant during packet and socks scans with stalls, error bursts and rate limits", Run: runC12,
		Enum: func(tier string) int {
			if tier == "thorough" {
				return 24 * c12BlockSize
			}
			return 0
		}})
}
