package harness

import (
	"encoding/json"
	"fmt"
	"testing"
	"time"

	"verif/sim/simnet"
	"verif/sim/simrt"
)

// C12 for the HTTP based application scans: `sx docker` / `sx elastic` against scripted endpoints,
// many of which accept and then stay silent or never complete the connect, so that probes are in
// flight - inside net/http, crypto/tls or the moby client - when Ctrl-C arrives.  The probe timeout
// is long (5 s .. 60 s): a scan that only ends when its probes time out is not a prompt return.

type c12HTTPScenario struct {
	Spec     *scanSpec  `json:"spec"`
	World    *WorldSpec `json:"world"`
	Timeout  string     `json:"timeout"`
	Mix      []string   `json:"endpoint_behaviours"`
	SigintAt string     `json:"sigint_at"`
}

func runC12HTTPCancel(t *testing.T, c simrt.Chooser, o Opts) *Out {
	p := picker{c}
	c10ServerTLS()
	s := genScan(p, genKnobs{maxProbes: 40, cmds: appCmds[1:], allowExcl: true, allowStdin: true, remotePct: 50})
	s.Workers = p.pick("workers", 1, 2, 7, 100)
	s.JSON = true
	timeout := []time.Duration{5 * time.Second, 20 * time.Second, 60 * time.Second}[p.n("timeout", 3)]
	s.Extra = append(s.Extra, "-t", timeout.String())
	hp := &httpPlan{kind: s.Kind, salt: uint64(p.n("salt", 1<<30)), timeout: timeout, servers: map[string]*c10Server{}, mu: make(chan struct{}, 1)}
	hp.mu <- struct{}{}
	if p.pct("https", 30) {
		hp.tls = true
		s.Extra = append(s.Extra, "--proto", "https")
	}
	all := []int{hbGood, hbGoodSlow, hbRefuse, hbBlackhole, hbBlackhole, hbStallHeaders, hbStallHeaders, hbStallHeaders, hbCloseAfterRequest, hbHTML}
	for i := 1 + p.n("nmix", 4); i > 0; i-- {
		hp.mix = append(hp.mix, all[p.n("mix", len(all))])
	}
	if p.pct("exitdelay", 40) {
		s.ExitDelay = []string{"1ms", "50ms", "2s"}[p.n("ed", 3)]
	}
	w := s.world()
	w.tcp = func(n *simnet.Net) { hp.run = simrtCurrent(); hp.install(n) }
	w.maxVirt = 2 * time.Hour
	// the cancel: somewhere inside the first probes' lifetime (or, rarely, after the scan ended)
	sigAt := p.dur("sigat", 1, timeout+timeout/2)
	if p.pct("early", 60) {
		sigAt = p.dur("sigat2", 1, 50*time.Millisecond)
	}
	w.SigintAt = sigAt.String()
	sc := &c12HTTPScenario{Spec: s, World: w, Timeout: timeout.String(), SigintAt: w.SigintAt}
	for _, b := range hp.mix {
		sc.Mix = append(sc.Mix, hbNames[b])
	}
	out := &Out{Scenario: sc, Stats: map[string]int{"cmd:" + s.Kind: 1}}
	cr := runCmd(t, c, w, o.Trace)
	out.Res = &cr.Res
	fired := cr.Res.SigFired
	out.Nontrivial = fired
	out.Key = fmt.Sprintf("%s/%s/%v/%v/%s/%016x", s.Kind, s.Mode, hp.tls, sc.Mix, cr.Res.SigTime, cr.Res.Hash)
	sig := s.Kind
	if len(cr.Res.Panics) > 0 {
		pn := cr.Res.Panics[0]
		out.violate("C12.panic", sig+"/"+firstLine(pn.Value), "argv %v, Ctrl-C at t=%v: panic in goroutine %s at %s: %s\n%s", w.Argv, cr.Res.SigTime, pn.G, pn.Site, pn.Value, trimStack(pn.Stack))
		return out
	}
	if !cr.Returned {
		out.violate("C12.no-return", sig+"/"+cr.Res.End.String(), "argv %v, Ctrl-C at t=%v: the command did not return (%v at %v); parked: %v", w.Argv, cr.Res.SigTime, cr.Res.End, cr.Res.Virt, firstN(cr.Res.Blocked, 14))
		return out
	}
	if fired && cr.ReturnT >= cr.Res.SigTime {
		inflight := 0
		for _, d := range cr.Dials {
			if d.T <= cr.Res.SigTime {
				inflight++
			}
		}
		if inflight > 0 {
			simrtProbe(&cr.Res, "cancel-with-probes-started")
		}
		// nothing the scan waits for after the cancel takes virtual time: requests in flight are
		// abandoned, connections closed; 100 ms is far above the nanosecond hand-overs of the
		// simulated transport and far below the shortest probe timeout
		if late := cr.ReturnT - cr.Res.SigTime; late > 100*time.Millisecond {
			out.violate("C12.slow-return", sig, "argv %v (probe timeout %v, endpoints %v): Ctrl-C at t=%v, the command returned %v later", w.Argv, timeout, sc.Mix, cr.Res.SigTime, late)
		}
	}
	lines, complete := stdoutLines(cr.Stdout)
	if !complete {
		out.violate("C12.torn-record", sig, "argv %v: stdout does not end with a newline: ...%q", w.Argv, tail(cr.Stdout, 80))
	}
	for i, l := range lines {
		var m map[string]interface{}
		if err := json.Unmarshal([]byte(l), &m); err != nil || m["scan"] != s.Kind {
			out.violate("C12.torn-record", sig, "argv %v: stdout line %d is not a complete record: %q", w.Argv, i, clip(l))
			break
		}
	}
	return out
}

func init() {
	register(&Suite{Name: "C12-httpcancel", Prop: "C12", Doc: "Ctrl-C while docker / elastic probes are in flight against silent, black-holed and slow endpoints", Run: runC12HTTPCancel})
}
