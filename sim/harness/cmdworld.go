package harness

import (
	"bytes"
	"fmt"
	"io"
	"net"
	"os"
	"sort"
	"strings"
	"syscall"
	"testing"
	"time"

	"github.com/v-byte-cpu/sx/command"
	"github.com/vishvananda/netlink"

	"verif/sim/pktcodec"
	"verif/sim/simhost"
	"verif/sim/simio"
	"verif/sim/simnet"
	"verif/sim/simrt"
	"verif/sim/simwire"
)

// ---- world specification (JSON-able: it is printed as the decoded scenario) ----------------

type IfSpec struct {
	Name     string   `json:"name"`
	Index    int      `json:"index"`
	MAC      string   `json:"mac,omitempty"` // "" = no hardware address (point-to-point / tun)
	Addrs    []string `json:"addrs"`         // CIDR, IPv4 or IPv6
	Loopback bool     `json:"loopback,omitempty"`
	AddrsErr bool     `json:"addrs_err,omitempty"`
}

type RouteSpec struct {
	Dst     string `json:"dst,omitempty"` // "" = default route
	Gw      string `json:"gw,omitempty"`
	IfIndex int    `json:"ifindex"`
	Metric  int    `json:"metric"`
}

type FileFault struct {
	ErrAt     int    `json:"err_at"` // -1 none
	ChunkSize int    `json:"chunk"`
	StallAt   int    `json:"stall_at,omitempty"`
	StallFor  string `json:"stall_for,omitempty"`
	OpenOnly  int    `json:"opens_that_succeed,omitempty"` // later opens fail: the file was removed while the scan was running
}

type WorldSpec struct {
	Argv      []string             `json:"argv"`
	Ifs       []IfSpec             `json:"ifs"`
	Routes    []RouteSpec          `json:"routes"`
	RoutesErr bool                 `json:"routes_err,omitempty"`
	Files     map[string]string    `json:"files,omitempty"`
	FileFault map[string]FileFault `json:"file_faults,omitempty"`
	Stdin     *string              `json:"stdin,omitempty"` // nil = terminal
	NumCPU    int                  `json:"numcpu"`

	NicStallEvery int    `json:"nic_stall_every,omitempty"`
	NicStallFor   string `json:"nic_stall_for,omitempty"`
	NicErrEvery   int    `json:"nic_err_every,omitempty"`
	OutStallEvery int    `json:"stdout_stall_every,omitempty"`
	ErrStallEvery int    `json:"stderr_stall_every,omitempty"`
	ErrStallFor   string `json:"stderr_stall_for,omitempty"`
	OutStallFor   string `json:"stdout_stall_for,omitempty"`
	OutErrEvery   int    `json:"stdout_error_every,omitempty"`
	CloseWakes    bool   `json:"close_wakes_reader"`
	SockOpenErr   string `json:"sock_open_err,omitempty"`
	HostLatency   string `json:"host_query_latency,omitempty"`
	SigintStep    int    `json:"sigint_step,omitempty"`
	SigintAt      string `json:"sigint_at,omitempty"`

	// not serialised: behaviour of the network
	onWrite  func(n *simwire.Net, f *simwire.Frame)
	onFilter func(n *simwire.Net, s *simwire.Sock)
	tcp      func(n *simnet.Net)
	maxSteps int
	maxVirt  time.Duration
}

func defaultHostSpec() ([]IfSpec, []RouteSpec) {
	return []IfSpec{
			{Name: "lo", Index: 1, Addrs: []string{"127.0.0.1/8"}, Loopback: true},
			{Name: "eth0", Index: 2, MAC: "02:00:00:00:00:01", Addrs: []string{"10.0.0.1/24"}},
		}, []RouteSpec{
			{Dst: "10.0.0.0/24", IfIndex: 2, Metric: 100},
			{Gw: "10.0.0.254", IfIndex: 2, Metric: 100},
		}
}

// CmdResult is everything observable about one simulated execution of the sx command.
type CmdResult struct {
	Res      simrt.Result
	Returned bool
	ExecErr  string
	ReturnT  time.Duration
	Wire     []*simwire.Frame
	Dels     []simwire.Delivery
	Socks    []*simwire.Sock
	Out      []simio.WriteRec
	FailedOut []simio.WriteRec
	Errs     []simio.ErrRec
	Stdout   []byte
	Stderr   []byte
	Opens    []string
	Dials    []*simnet.DialRec
	Conns    []*simnet.ConnRec
	HostCalls []string
}

func mustCIDR(s string) *net.IPNet {
	ip, n, err := net.ParseCIDR(s)
	if err != nil {
		panic(err)
	}
	if ip4 := ip.To4(); ip4 != nil {
		return &net.IPNet{IP: ip4, Mask: n.Mask}
	}
	return &net.IPNet{IP: ip, Mask: n.Mask}
}

func parseDur(s string) time.Duration {
	if s == "" {
		return 0
	}
	d, err := time.ParseDuration(s)
	if err != nil {
		panic(err)
	}
	return d
}

// runCmd executes `sx <argv>` inside the simulated world.
func runCmd(t *testing.T, c simrt.Chooser, w *WorldSpec, trace bool) *CmdResult {
	cr := &CmdResult{}
	var iow *simio.World
	var wire *simwire.Net
	var tcpn *simnet.Net
	var host *simhost.Host
	cfg := simrt.Config{Chooser: c, Trace: trace, SigintStep: w.SigintStep, SigintAt: parseDur(w.SigintAt), MaxSteps: w.maxSteps, MaxVirt: w.maxVirt}
	if cfg.MaxSteps == 0 {
		cfg.MaxSteps = 3_000_000
	}
	cr.Res = simrt.Execute(t, cfg, func(r *simrt.Run) {
		iow = simio.Install(r)
		for name, data := range w.Files {
			fs := &simio.FileSpec{Data: []byte(data), ErrAt: -1}
			if ff, ok := w.FileFault[name]; ok {
				fs.ErrAt, fs.ChunkSize = ff.ErrAt, ff.ChunkSize
				fs.StallAt, fs.StallFor = ff.StallAt, parseDur(ff.StallFor)
				fs.OpenOnly = ff.OpenOnly
			}
			iow.Files[name] = fs
		}
		if w.Stdin != nil {
			fs := &simio.FileSpec{Data: []byte(*w.Stdin), ErrAt: -1}
			if ff, ok := w.FileFault["-"]; ok {
				fs.ErrAt, fs.ChunkSize = ff.ErrAt, ff.ChunkSize
				fs.StallAt, fs.StallFor = ff.StallAt, parseDur(ff.StallFor)
			}
			iow.Stdin = fs
		} else {
			iow.StdinTTY = true
		}
		iow.StallEvery, iow.StallFor = w.OutStallEvery, parseDur(w.OutStallFor)
		iow.ErrStallEvery, iow.ErrStallFor = w.ErrStallEvery, parseDur(w.ErrStallFor)
		iow.ErrEvery = w.OutErrEvery
		host = simhost.Install(r)
		for _, is := range w.Ifs {
			ifc := simhost.Iface{Interface: net.Interface{Index: is.Index, Name: is.Name, MTU: 1500, Flags: net.FlagUp}}
			if is.MAC != "" {
				m, err := net.ParseMAC(is.MAC)
				if err != nil {
					panic(err)
				}
				ifc.HardwareAddr = m
				ifc.Flags |= net.FlagBroadcast | net.FlagMulticast
			} else if !is.Loopback {
				ifc.Flags |= net.FlagPointToPoint
			}
			if is.Loopback {
				ifc.Flags |= net.FlagLoopback
			}
			for _, a := range is.Addrs {
				ifc.Addrs = append(ifc.Addrs, mustCIDR(a))
			}
			if is.AddrsErr {
				ifc.AddrsErr = fmt.Errorf("route ip+net: netlinkrib: too many open files")
			}
			host.Ifaces = append(host.Ifaces, ifc)
		}
		for _, rs := range w.Routes {
			rt := netlink.Route{LinkIndex: rs.IfIndex, Priority: rs.Metric}
			if rs.Dst != "" {
				rt.Dst = mustCIDR(rs.Dst)
			}
			if rs.Gw != "" {
				rt.Gw = net.ParseIP(rs.Gw).To4()
			}
			host.Routes = append(host.Routes, rt)
		}
		host.CallLatency = parseDur(w.HostLatency)
		if w.RoutesErr {
			host.RoutesErr = fmt.Errorf("netlink receive: too many open files")
		}
		wire = simwire.Install(r)
		wire.StallEvery, wire.StallFor = w.NicStallEvery, parseDur(w.NicStallFor)
		if w.NicErrEvery > 0 {
			// what sendto(2) on a packet socket returns under pressure: a temporary errno, bare or wrapped
			// (and what a write returns when the kernel took the device away for a moment: whatever the
			// value, a failed write is one error record and the next frame is written as usual)
			errs := []error{syscall.ENOBUFS, syscall.EAGAIN, os.NewSyscallError("sendto", syscall.EAGAIN), fmt.Errorf("send: no buffer space available"),
				syscall.EBADF, io.ErrClosedPipe, fmt.Errorf("write packet: use of closed file"), syscall.ENETDOWN, io.ErrShortWrite}
			wire.WriteErrEvery, wire.WriteErr = w.NicErrEvery, errs[w.NicErrEvery%len(errs)]
		}
		wire.CloseWakesReader = w.CloseWakes
		if w.SockOpenErr != "" {
			wire.OpenErr = fmt.Errorf("%s", w.SockOpenErr)
		}
		wire.OnWrite = w.onWrite
		wire.OnFilter = w.onFilter
		tcpn = simnet.Install(r)
		if w.tcp != nil {
			w.tcp(tcpn)
		}
		n := w.NumCPU
		if n <= 0 {
			n = 1
		}
		r.SetNumCPU(n)
	}, func(r *simrt.Run) {
		cmd := command.SimRootCmd("sim")
		cmd.SetArgs(w.Argv)
		cmd.SetOut(io.Discard)
		cmd.SetErr(io.Discard)
		err := cmd.Execute()
		cr.Returned = true
		cr.ReturnT = r.Now()
		if err != nil {
			cr.ExecErr = err.Error()
		}
	})
	cr.Wire, cr.Dels = wire.Snapshot()
	cr.Socks = wire.Socks
	cr.Out, cr.Errs = iow.Snapshot()
	cr.FailedOut = iow.FailedOut
	cr.Stdout = iow.OutBytes()
	cr.Stderr = iow.Stderr
	cr.Opens = iow.Opens
	cr.Dials, cr.Conns = tcpn.Snapshot()
	cr.HostCalls = host.Calls
	return cr
}

// ---- small IPv4 helpers (oracle side; no sx code) -------------------------------------------

type cidr struct {
	Base uint32 // masked
	Bits int
}

func (c cidr) size() int            { return 1 << (32 - c.Bits) }
func (c cidr) contains(a uint32) bool {
	if c.Bits == 0 {
		return true
	}
	m := ^uint32(0) << (32 - c.Bits)
	return a&m == c.Base
}
func (c cidr) String() string { return fmt.Sprintf("%s/%d", ipStr(c.Base), c.Bits) }

func mkCIDR(addr uint32, bits int) cidr {
	if bits == 0 {
		return cidr{0, 0}
	}
	return cidr{addr & (^uint32(0) << (32 - bits)), bits}
}

func ipStr(a uint32) string { return pktcodec.IPString(pktcodec.IP4(a)) }

func ipU32(s string) uint32 {
	ip := net.ParseIP(s).To4()
	return uint32(ip[0])<<24 | uint32(ip[1])<<16 | uint32(ip[2])<<8 | uint32(ip[3])
}

func macBytes(s string) [6]byte {
	m, err := net.ParseMAC(s)
	if err != nil || len(m) != 6 {
		panic("bad mac " + s)
	}
	var a [6]byte
	copy(a[:], m)
	return a
}

type portRange struct{ Lo, Hi int }

func portsArg(rs []portRange) string {
	var parts []string
	for _, r := range rs {
		if r.Lo == r.Hi {
			parts = append(parts, fmt.Sprint(r.Lo))
		} else {
			parts = append(parts, fmt.Sprintf("%d-%d", r.Lo, r.Hi))
		}
	}
	return strings.Join(parts, ",")
}

func inRanges(rs []portRange, p int) bool {
	for _, r := range rs {
		if p >= r.Lo && p <= r.Hi {
			return true
		}
	}
	return false
}

// probeKey identifies a probe: destination address and port (port 0 for port-less scans).
type probeKey struct {
	IP   uint32
	Port int
}

// sortedProbeKeys returns the keys in (address, port) order: verdicts and generated scenarios must
// never depend on Go's randomised map iteration order.
func sortedProbeKeys(m map[probeKey]int) []probeKey {
	ks := make([]probeKey, 0, len(m))
	for k := range m {
		ks = append(ks, k)
	}
	sort.Slice(ks, func(i, j int) bool {
		if ks[i].IP != ks[j].IP {
			return ks[i].IP < ks[j].IP
		}
		return ks[i].Port < ks[j].Port
	})
	return ks
}

func (k probeKey) String() string { return fmt.Sprintf("%s:%d", ipStr(k.IP), k.Port) }

func diffMultiset(got, want map[probeKey]int) (missing, extra []string) {
	for k, w := range want {
		if g := got[k]; g < w {
			missing = append(missing, fmt.Sprintf("%v x%d", k, w-g))
		}
	}
	for k, g := range got {
		if w := want[k]; g > w {
			extra = append(extra, fmt.Sprintf("%v x%d", k, g-w))
		}
	}
	sort.Strings(missing)
	sort.Strings(extra)
	return
}

func firstN(xs []string, n int) []string {
	if len(xs) > n {
		return append(append([]string{}, xs[:n]...), fmt.Sprintf("... %d more", len(xs)-n))
	}
	return xs
}

// decodeProbe decodes a frame written by sx with the oracle codec.
func decodeProbe(data []byte, vpn bool) (*pktcodec.Packet, error) {
	return pktcodec.Decode(data, !vpn)
}

// probeOf extracts the probe key of a written frame for the given scan kind.
func probeOf(kind string, data []byte, vpn bool) (probeKey, *pktcodec.Packet, error) {
	p, err := decodeProbe(data, vpn)
	if err != nil {
		return probeKey{}, p, err
	}
	switch kind {
	case "arp":
		if p.ARP == nil || len(p.ARP.TPA) != 4 {
			return probeKey{}, p, fmt.Errorf("not an IPv4 ARP frame")
		}
		var a [4]byte
		copy(a[:], p.ARP.TPA)
		return probeKey{IP: pktcodec.U32(a)}, p, nil
	case "icmp":
		if p.IP == nil {
			return probeKey{}, p, fmt.Errorf("no IPv4 header")
		}
		return probeKey{IP: pktcodec.U32(p.IP.Dst)}, p, nil
	case "tcp":
		if p.IP == nil || p.TCP == nil {
			return probeKey{}, p, fmt.Errorf("no IPv4/TCP header (problems: %v)", p.Problems)
		}
		return probeKey{IP: pktcodec.U32(p.IP.Dst), Port: int(p.TCP.DstPort)}, p, nil
	case "udp":
		if p.IP == nil || p.UDP == nil {
			return probeKey{}, p, fmt.Errorf("no IPv4/UDP header (problems: %v)", p.Problems)
		}
		return probeKey{IP: pktcodec.U32(p.IP.Dst), Port: int(p.UDP.DstPort)}, p, nil
	}
	return probeKey{}, p, fmt.Errorf("unknown kind %q", kind)
}

// stdoutLines splits stdout into lines; ok=false if the last line is not terminated.
func stdoutLines(b []byte) (lines []string, complete bool) {
	if len(b) == 0 {
		return nil, true
	}
	complete = b[len(b)-1] == '\n'
	parts := bytes.Split(b, []byte{'\n'})
	if complete {
		parts = parts[:len(parts)-1]
	}
	for _, p := range parts {
		lines = append(lines, string(p))
	}
	return
}

func crashOrHang(out *Out, prop string, cr *CmdResult) bool {
	bad := false
	if len(cr.Res.Panics) > 0 {
		p := cr.Res.Panics[0]
		out.violate(prop+".panic", "panic:"+firstLine(p.Value), "panic in goroutine %s at %s: %s\n%s", p.G, p.Site, p.Value, trimStack(p.Stack))
		bad = true
	}
	if !cr.Returned && len(cr.Res.Panics) == 0 {
		out.violate(prop+".hang", "hang:"+cr.Res.End.String(), "command did not return: run ended by %v after %d steps at virtual %v; parked: %v", cr.Res.End, cr.Res.Steps, cr.Res.Virt, firstN(cr.Res.Blocked, 12))
		bad = true
	}
	return bad
}

func firstLine(s string) string {
	if i := strings.IndexByte(s, '\n'); i >= 0 {
		s = s[:i]
	}
	if len(s) > 80 {
		s = s[:80]
	}
	return s
}

func trimStack(s string) string {
	lines := strings.Split(s, "\n")
	if len(lines) > 24 {
		lines = lines[:24]
	}
	return strings.Join(lines, "\n")
}
