package harness

import (
	"fmt"
	"time"
	"testing"

	"verif/sim/simrt"
)

// C03 — a frame is reported iff it is a reply-shaped frame (command level, real BPF program).

func runC03(t *testing.T, c simrt.Chooser, o Opts) *Out {
	p := picker{c}
	maxProbes := 150
	if o.Tier == "thorough" {
		maxProbes = 600
	}
	k := pktKnobs{
		gen:        genKnobs{maxProbes: maxProbes, cmds: packetCmds, allowVPN: true, allowStdin: false, allowExcl: true, chunkedPct: 6, remotePct: 50},
		unsolMax:   40,
		latePct:    20,
		dupPct:     15,
		exitDelays: []string{"", "", "50ms", "1s", "3ms", "2s"},
		flagIndex:  o.Index, // over a batch of >= 512 runs every TCP flag combination arrives unsolicited
	}
	sc := buildPacketScenario(p, o, k)
	if p.pct("stdouterr", 12) {
		// a write to stdout fails now and then (EAGAIN on a full non-blocking pipe): exactly the
		// records of the failed writes may be missing, nothing else
		sc.World.OutErrEvery = 2 + p.n("stdouterrevery", 9)
	}
	if sc.exitDelay >= 300*time.Millisecond && len(sc.Spec.Ports) <= 200 && p.pct("readerrs", 15) {
		// a flapping link: unknown read errors (up to 30 with long exit delays) while replies keep arriving
		injectReadErrors(sc, min(8+p.n("nreaderrs", 23), maxReadErrors(sc.exitDelay)))
	}
	out := &Out{Scenario: sc, Stats: map[string]int{}}
	cr := runPacketScenario(t, c, o, sc)
	out.Res = &cr.Res
	out.Stats["cmd:"+sc.Spec.Kind]++
	out.Stats["unsolicited"] += sc.Unsol
	out.Stats["replies"] += sc.plan.replies
	out.Nontrivial = sc.Unsol+sc.plan.replies >= 2
	out.Key = fmt.Sprintf("%v/%s/%d/%d/%016x", sc.Spec.Cmd, sc.Spec.Mode, sc.Unsol, sc.plan.replies, cr.Res.Hash)
	if crashOrHang(out, "C03", cr) {
		return out
	}
	if cr.ExecErr != "" {
		out.violate("C03.exec-error", sc.Spec.Kind, "valid specification refused: %s (argv %v)", cr.ExecErr, sc.World.Argv)
		return out
	}
	oracleDetection(out, "C03", sc, cr)
	return out
}

func init() {
	register(&Suite{Name: "C03-detection", Prop: "C03", Doc: "packet scans against simulated hosts plus unsolicited traffic; stdout records vs reference reply-shape model", Run: runC03})
}
