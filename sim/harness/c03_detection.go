package harness

import (
	"fmt"
	"time"
	"testing"

	"verif/sim/pktcodec"
	"verif/sim/simrt"
)

// C03 — a frame is reported iff it is a reply-shaped frame (command level, real BPF program).

func runC03(t *testing.T, c simrt.Chooser, o Opts) *Out {
	p := picker{c}
	maxProbes := 150
	if o.Tier == "thorough" {
		maxProbes = 600
	}
	k := pktKnobs{
		gen:        genKnobs{maxProbes: maxProbes, cmds: packetCmds, allowVPN: true, allowStdin: false, allowExcl: true, chunkedPct: 6, remotePct: 50},
		unsolMax:   40,
		latePct:    20,
		dupPct:     15,
		exitDelays: []string{"", "", "50ms", "1s", "3ms", "2s"},
		flagIndex:  o.Index, // over a batch of >= 512 runs every TCP flag combination arrives unsolicited
	}
	sc := buildPacketScenario(p, o, k)
	if p.pct("stdouterr", 12) {
		// a write to stdout fails now and then (EAGAIN on a full non-blocking pipe): exactly the
		// records of the failed writes may be missing, nothing else
		sc.World.OutErrEvery = 2 + p.n("stdouterrevery", 9)
	}
	if sc.exitDelay >= 300*time.Millisecond && len(sc.Spec.Ports) <= 200 && p.pct("readerrs", 15) {
		// a flapping link: unknown read errors (up to 30 with long exit delays) while replies keep arriving
		injectReadErrors(sc, min(8+p.n("nreaderrs", 23), maxReadErrors(sc.exitDelay)))
	}
	if sc.exitDelay >= 300*time.Millisecond && !sc.Spec.VPN && (sc.Spec.Kind == "icmp" || sc.Spec.Kind == "arp") && p.pct("decodeflood", 10) {
		// a burst of frames that pass the socket filter but cannot be decoded (cut off inside the
		// ICMP / ARP header): far more processing errors than the 100-slot error channels hold, all
		// in the first 40 % of the exit delay - replies that arrive later are still replies
		n := 120 + p.n("nflood", 200)
		gap := sc.exitDelay * 4 / 10 / time.Duration(n+1)
		our := pktcodec.IP4(ipU32("10.0.0.1"))
		for i := 0; i < n; i++ {
			src := ipU32("10.0.0.0") + uint32(2+p.n("fsrc", 250))
			mac := hostMAC(src)
			var frame []byte
			if sc.Spec.Kind == "icmp" {
				frame = sc.plan.wrap(mac, pktcodec.EncodeIPv4(pktcodec.IP4(src), our, pktcodec.ProtoICMP, []byte{0, 0}, pktcodec.IPOpts{ID: uint16(i), TTL: 64}))
			} else {
				frame = append(pktcodec.EthHeader(sc.plan.ourMAC, mac, pktcodec.EtherTypeARP), 0, 1, 8, 0, 6, 4, 0)
			}
			sc.plan.unsol = append(sc.plan.unsol, unsolFrame{delay: time.Duration(i+1) * gap, data: frame, tag: "undecodable"})
		}
		sc.Unsol += n
		simrtFault(&Out{Stats: map[string]int{}}, "decode-error-flood")
	}
	out := &Out{Scenario: sc, Stats: map[string]int{}}
	cr := runPacketScenario(t, c, o, sc)
	out.Res = &cr.Res
	out.Stats["cmd:"+sc.Spec.Kind]++
	out.Stats["unsolicited"] += sc.Unsol
	out.Stats["replies"] += sc.plan.replies
	out.Nontrivial = sc.Unsol+sc.plan.replies >= 2
	out.Key = fmt.Sprintf("%v/%s/%d/%d/%016x", sc.Spec.Cmd, sc.Spec.Mode, sc.Unsol, sc.plan.replies, cr.Res.Hash)
	if crashOrHang(out, "C03", cr) {
		return out
	}
	if cr.ExecErr != "" {
		out.violate("C03.exec-error", sc.Spec.Kind, "valid specification refused: %s (argv %v)", cr.ExecErr, sc.World.Argv)
		return out
	}
	oracleDetection(out, "C03", sc, cr)
	return out
}

func init() {
	register(&Suite{Name: "C03-detection", Prop: "C03", Doc: "packet scans against simulated hosts plus unsolicited traffic; stdout records vs reference reply-shape model", Run: runC03})
}
