package harness

import (
	"fmt"
	"sort"
	"strings"
)

// ---- generated scan specification shared by the command-level suites ------------------------

type fileEntry struct {
	IP   string `json:"ip"`
	Port int    `json:"port,omitempty"`
}

type scanSpec struct {
	Cmd       []string    `json:"cmd"`  // e.g. ["tcp","syn"]
	Kind      string      `json:"kind"` // arp | icmp | tcp | udp | socks | docker | elastic
	Mode      string      `json:"mode"` // subnet | pairs | ips-ports | ips
	SubnetArg string      `json:"subnet_arg,omitempty"`
	Subnet    cidr        `json:"subnet"`
	Entries   []fileEntry `json:"entries,omitempty"`
	FromStdin bool        `json:"targets_from_stdin,omitempty"`
	Ports     []portRange `json:"ports,omitempty"`
	PortsFile bool        `json:"ports_via_file,omitempty"`
	PortsSplit int        `json:"ports_first_n_via_p,omitempty"` // with ports_via_file: the first n ranges are given with -p, the rest in the file
	Exclude   []string    `json:"exclude,omitempty"`
	VPN       bool        `json:"vpn,omitempty"`
	GwMAC     string      `json:"gwmac,omitempty"` // via --gwmac
	CacheGw   bool        `json:"gateway_in_cache,omitempty"`
	Cache     []fileEntryMAC `json:"arp_cache,omitempty"`
	CacheFile bool        `json:"arp_cache_via_file,omitempty"`
	JSON      bool        `json:"json"`
	ExitDelay string      `json:"exit_delay,omitempty"`
	Rate      string      `json:"rate,omitempty"`
	Extra     []string    `json:"extra_args,omitempty"`
	Workers   int         `json:"workers,omitempty"`
	TCPFlags  []string    `json:"tcp_flags,omitempty"`
}

type fileEntryMAC struct {
	IP  string `json:"ip"`
	MAC string `json:"mac"`
}

func (s *scanSpec) portless() bool { return s.Kind == "arp" || s.Kind == "icmp" }
func (s *scanSpec) app() bool      { return s.Kind == "socks" || s.Kind == "docker" || s.Kind == "elastic" }

func parseCIDRs(xs []string) []cidr {
	var out []cidr
	for _, x := range xs {
		bits := 32
		addr := x
		if i := strings.IndexByte(x, '/'); i >= 0 {
			fmt.Sscanf(x[i+1:], "%d", &bits)
			addr = x[:i]
		}
		out = append(out, mkCIDR(ipU32(addr), bits))
	}
	return out
}

func excluded(ex []cidr, a uint32) bool {
	for _, c := range ex {
		if c.contains(a) {
			return true
		}
	}
	return false
}

func (s *scanSpec) portList() []int {
	var ps []int
	for _, r := range s.Ports {
		for p := r.Lo; p <= r.Hi; p++ {
			ps = append(ps, p)
		}
	}
	return ps
}

// expected is the reference enumeration of the probes the specification denotes (one pass).
func (s *scanSpec) expected() map[probeKey]int {
	want := map[probeKey]int{}
	ex := parseCIDRs(cleanExclude(s.Exclude))
	switch s.Mode {
	case "subnet":
		ports := []int{0}
		if !s.portless() {
			ports = s.portList()
		}
		for i := 0; i < s.Subnet.size(); i++ {
			a := s.Subnet.Base + uint32(i)
			if excluded(ex, a) {
				continue
			}
			for _, p := range ports {
				want[probeKey{a, p}]++
			}
		}
	case "pairs":
		for _, e := range s.Entries {
			a := ipU32(e.IP)
			if excluded(ex, a) {
				continue
			}
			want[probeKey{a, e.Port}]++
		}
	case "ips-ports":
		for _, p := range s.portList() {
			for _, e := range s.Entries {
				a := ipU32(e.IP)
				if excluded(ex, a) {
					continue
				}
				want[probeKey{a, p}]++
			}
		}
	case "ips":
		for _, e := range s.Entries {
			a := ipU32(e.IP)
			if excluded(ex, a) {
				continue
			}
			want[probeKey{a, 0}]++
		}
	}
	return want
}

// probeBound is a cheap upper bound of the number of probes (exclusions ignored; never enumerates).
func (s *scanSpec) probeBound() uint64 {
	nports := uint64(0)
	for _, r := range s.Ports {
		nports += uint64(r.Hi - r.Lo + 1)
	}
	if nports == 0 {
		nports = 1
	}
	switch s.Mode {
	case "subnet":
		return (uint64(1) << uint(32-s.Subnet.Bits)) * nports
	case "pairs":
		return uint64(len(s.Entries))
	}
	return uint64(len(s.Entries)) * nports
}

func (s *scanSpec) nprobes() int {
	n := 0
	for _, v := range s.expected() {
		n += v
	}
	return n
}

const (
	gwIP      = "10.0.0.254"
	gwMAC     = "02:00:00:00:00:fe"
	targetsFn = "/sim/targets.jsonl"
	excludeFn = "/sim/exclude.txt"
	portsFn   = "/sim/ports.txt"
	cacheFn   = "/sim/arp.cache"
)

func entriesJSONL(es []fileEntry, withPort bool) string {
	var sb strings.Builder
	for _, e := range es {
		if withPort {
			sb.WriteString(fmt.Sprintf("{\"ip\":%q,\"port\":%d}\n", e.IP, e.Port))
		} else {
			sb.WriteString(fmt.Sprintf("{\"ip\":%q}\n", e.IP))
		}
	}
	return sb.String()
}

// world turns the scan specification into argv + files + host for the simulated run.
func (s *scanSpec) world() *WorldSpec {
	w := &WorldSpec{Files: map[string]string{}, CloseWakes: true}
	w.Ifs, w.Routes = defaultHostSpec()
	if s.VPN {
		// a tunnel interface without hardware address carries the default route
		w.Ifs = append(w.Ifs, IfSpec{Name: "tun0", Index: 3, Addrs: []string{"10.8.0.2/24"}})
		w.Routes = []RouteSpec{{Dst: "10.0.0.0/24", IfIndex: 2, Metric: 100}, {Gw: "10.8.0.1", IfIndex: 3, Metric: 50}}
	}
	argv := append([]string{}, s.Cmd...)
	if s.JSON {
		argv = append(argv, "--json")
	}
	if len(s.TCPFlags) > 0 {
		argv = append(argv, "--flags", strings.Join(s.TCPFlags, ","))
	}
	if len(s.Ports) > 0 {
		if s.PortsFile {
			var sb strings.Builder
			inFile := s.Ports
			if s.PortsSplit > 0 && s.PortsSplit < len(s.Ports) {
				// both options at once: the scan covers the ranges of -p and those of the file
				argv = append(argv, "-p", portsArg(s.Ports[:s.PortsSplit]))
				inFile = s.Ports[s.PortsSplit:]
			}
			for _, r := range inFile {
				sb.WriteString(portsArg([]portRange{r}) + "\n")
			}
			w.Files[portsFn] = sb.String()
			argv = append(argv, "--ports-file", portsFn)
		} else {
			argv = append(argv, "-p", portsArg(s.Ports))
		}
	}
	if len(s.Exclude) > 0 {
		w.Files[excludeFn] = strings.Join(s.Exclude, "\n") + "\n"
		argv = append(argv, "--exclude", excludeFn)
	}
	if s.ExitDelay != "" {
		argv = append(argv, "--exit-delay", s.ExitDelay)
	} else {
		// always explicit: the oracles compare with the configured delay, never with the
		// implementation's default value
		argv = append(argv, "--exit-delay", "300ms")
	}
	if s.Rate != "" {
		argv = append(argv, "--rate", s.Rate)
	}
	if s.Workers > 0 {
		argv = append(argv, "-w", fmt.Sprint(s.Workers))
	}
	var stdin *string
	if s.Mode != "subnet" {
		data := entriesJSONL(s.Entries, s.Mode == "pairs")
		if s.FromStdin {
			stdin = &data
			argv = append(argv, "-f", "-")
		} else {
			w.Files[targetsFn] = data
			argv = append(argv, "-f", targetsFn)
		}
	}
	if !s.app() && s.Kind != "arp" {
		if s.GwMAC != "" {
			argv = append(argv, "--gwmac", s.GwMAC)
		}
		var sb strings.Builder
		for _, e := range s.Cache {
			sb.WriteString(fmt.Sprintf("{\"ip\":%q,\"mac\":%q,\"vendor\":\"\"}\n", e.IP, e.MAC))
		}
		if s.CacheGw {
			sb.WriteString(fmt.Sprintf("{\"ip\":%q,\"mac\":%q,\"vendor\":\"sim\"}\n", gwIP, gwMAC))
		}
		cache := sb.String()
		if s.CacheFile || s.FromStdin {
			w.Files[cacheFn] = cache
			argv = append(argv, "-a", cacheFn)
		} else {
			stdin = &cache
		}
	}
	argv = append(argv, s.Extra...)
	if s.Kind == "socks" {
		// the time bounds of the socks suites are stated for a 2 s connect/data timeout: always
		// explicit, never the implementation's default value
		has := false
		for _, a := range s.Extra {
			if a == "-t" || a == "--timeout" {
				has = true
			}
		}
		if !has {
			argv = append(argv, "-t", "2s")
		}
	}
	if s.Mode == "subnet" {
		argv = append(argv, s.SubnetArg)
	}
	w.Stdin = stdin
	w.Argv = argv
	// step budget of one execution: an ordinary scan needs 15..40 scheduling steps per probe; the
	// generous bound below only decides how soon a program that spins without making progress is
	// cut off (and reported as not returning) instead of burning the wall-clock budget of the run
	if np := s.probeBound(); np > 0 && np < 1_000_000 {
		w.maxSteps = 400_000 + 200*int(np) + 3_000*len(s.Ports)
	}
	return w
}

// ---- generators -----------------------------------------------------------------------------

var packetCmds = [][]string{{"arp"}, {"icmp"}, {"udp"}, {"tcp"}, {"tcp", "syn"}, {"tcp", "fin"}, {"tcp", "null"}, {"tcp", "xmas"}, {"tcp", "--flags"}}
var appCmds = [][]string{{"socks"}, {"docker"}, {"elastic"}}
var tcpFlagNames = []string{"syn", "ack", "fin", "rst", "psh", "urg", "ece", "cwr", "ns"}

func kindOf(cmd []string) string {
	return cmd[0]
}

type genKnobs struct {
	maxProbes   int
	cmds        [][]string
	allowVPN    bool
	allowStdin  bool
	allowExcl   bool
	chunkedPct  int // percentage of port scans with > 200 ranges
	remotePct   int // percentage of targets outside the on-link subnet
	forceMode   string
}

func genPorts(p picker, budget int, chunkedPct int) []portRange {
	var rs []portRange
	if p.pct("chunked", chunkedPct) {
		// more than 200 ranges so that the scan is split into chunks; single ports to stay cheap
		// (not clamped by the probe budget: a chunked scan needs more than 200 ranges; callers give
		// such scans a single address)
		n := 201 + p.n("nranges", 260)
		if p.pct("chunkedge", 40) {
			n = []int{201, 399, 400, 401, 600}[p.n("chunkedgen", 5)] // around multiples of the chunk size
		}
		start := 1 + p.n("start", 60000)
		step := 1 + p.n("step", 3)
		for i := 0; i < n; i++ {
			lo := start + i*step
			if lo > 65535 {
				lo = 65535 - (i % 1000)
			}
			rs = append(rs, portRange{lo, lo})
		}
		return rs
	}
	if chunkedPct > 0 && p.pct("exactly200", 2) {
		// exactly one full chunk
		start := 1 + p.n("start200", 60000)
		for i := 0; i < 200; i++ {
			rs = append(rs, portRange{start + i, start + i})
		}
		return rs
	}
	n := 1 + p.n("nranges", 4)
	left := budget
	for i := 0; i < n && left > 0; i++ {
		var lo, hi int
		switch p.n("shape", 6) {
		case 0: // single port
			lo = 1 + p.n("port", 65535)
			hi = lo
		case 1: // low edge
			lo, hi = 1, 1+p.n("w", min(left, 12))
		case 2: // high edge
			w := p.n("w", min(left, 12))
			lo, hi = 65535-w, 65535
		case 3: // adjacent to / overlapping the previous range
			if len(rs) > 0 {
				prev := rs[len(rs)-1]
				lo = prev.Hi + 1 - p.n("ov", 3)
				if lo < 1 {
					lo = 1
				}
				hi = lo + p.n("w", min(left, 10))
			} else {
				lo = 1 + p.n("port", 65000)
				hi = lo + p.n("w", min(left, 10))
			}
		default:
			lo = 1 + p.n("port", 65000)
			hi = lo + p.n("w", min(left, 40))
		}
		if hi > 65535 {
			hi = 65535
		}
		if lo > hi {
			lo = hi
		}
		if hi-lo+1 > left {
			hi = lo + left - 1
		}
		left -= hi - lo + 1
		rs = append(rs, portRange{lo, hi})
	}
	return rs
}

func genSubnet(p picker, maxAddrs int, remotePct int) (cidr, string) {
	maxHostBits := 0
	for 1<<(maxHostBits+1) <= maxAddrs {
		maxHostBits++
	}
	hostBits := p.n("hostbits", maxHostBits+1)
	bits := 32 - hostBits
	var base uint32
	if p.pct("remote", remotePct) {
		bases := []string{"198.51.100.0", "172.20.3.0", "192.0.2.128", "8.8.4.0", "203.0.113.64", "100.64.200.0", "223.255.255.0", "1.0.0.0"}
		base = ipU32(bases[p.n("rbase", len(bases))]) + uint32(p.n("roff", 256))
	} else {
		base = ipU32("10.0.0.0") + uint32(p.n("off", 256))
	}
	c := mkCIDR(base, bits)
	arg := c.String()
	switch p.n("spelling", 4) {
	case 0: // unaligned base address
		arg = fmt.Sprintf("%s/%d", ipStr(c.Base+uint32(p.n("unaligned", c.size()))), bits)
	case 1:
		if bits == 32 {
			arg = ipStr(c.Base) // single host without mask
		}
	}
	return c, arg
}

func genEntries(p picker, n int, withPort bool, remotePct int) []fileEntry {
	var es []fileEntry
	for i := 0; i < n; i++ {
		var a uint32
		if p.pct("remote", remotePct) {
			a = ipU32("198.51.100.0") + uint32(p.n("ra", 1024))
		} else {
			a = ipU32("10.0.0.0") + uint32(2+p.n("la", 250))
		}
		if i > 0 && p.pct("dup", 8) {
			a = ipU32(es[p.n("dupi", len(es))].IP) // repeated line: counted with multiplicity
		}
		e := fileEntry{IP: ipStr(a)}
		if withPort {
			e.Port = 1 + p.n("port", 65535)
		}
		es = append(es, e)
	}
	return es
}

func genExclude(p picker, s *scanSpec) []string {
	var ex []string
	n := 1 + p.n("nex", 4)
	pool := []uint32{}
	if s.Mode == "subnet" {
		for i := 0; i < 6; i++ {
			pool = append(pool, s.Subnet.Base+uint32(p.n("exaddr", s.Subnet.size())))
		}
	} else {
		for _, e := range s.Entries {
			pool = append(pool, ipU32(e.IP))
		}
	}
	for i := 0; i < n; i++ {
		a := pool[p.n("expick", len(pool))]
		switch p.n("exshape", 5) {
		case 0:
			ex = append(ex, ipStr(a))
		case 1:
			ex = append(ex, fmt.Sprintf("%s/32", ipStr(a)))
		case 2:
			b := 24 + p.n("exbits", 8)
			ex = append(ex, fmt.Sprintf("%s/%d", ipStr(a), b)) // unaligned spelling, nested/overlapping possible
		case 3:
			ex = append(ex, fmt.Sprintf("  %s # comment", mkCIDR(a, 30).String()))
		default:
			ex = append(ex, "# only a comment", "", ipStr(a+1))
		}
	}
	return ex
}

// exclusion lines as the oracle reads them (comments and blanks removed)
func cleanExclude(lines []string) []string {
	var out []string
	for _, l := range lines {
		if i := strings.IndexByte(l, '#'); i >= 0 {
			l = l[:i]
		}
		l = strings.TrimSpace(l)
		if l != "" {
			out = append(out, l)
		}
	}
	return out
}

// genScan draws one scan specification.
func genScan(p picker, k genKnobs) *scanSpec {
	s := &scanSpec{}
	cmd := k.cmds[p.n("cmd", len(k.cmds))]
	s.Kind = kindOf(cmd)
	if len(cmd) == 2 && cmd[1] == "--flags" {
		s.Cmd = []string{"tcp"}
		nf := 1 + p.n("nflags", 3)
		perm := []int{0, 1, 2, 3, 4, 5, 6, 7, 8}
		for i := 0; i < nf; i++ {
			j := i + p.n("flag", len(perm)-i)
			perm[i], perm[j] = perm[j], perm[i]
			s.TCPFlags = append(s.TCPFlags, tcpFlagNames[perm[i]])
		}
	} else {
		s.Cmd = cmd
	}
	s.JSON = p.pct("json", 70)
	budget := k.maxProbes
	// mode
	switch {
	case s.Kind == "arp":
		s.Mode = "subnet"
	case s.Kind == "icmp":
		s.Mode = []string{"subnet", "subnet", "ips"}[p.n("mode", 3)]
	default:
		s.Mode = []string{"subnet", "subnet", "pairs", "ips-ports"}[p.n("mode", 4)]
	}
	if k.forceMode != "" {
		s.Mode = k.forceMode
	}
	remote := k.remotePct
	if !s.app() && s.Kind != "arp" && k.allowVPN && p.pct("vpn", 15) {
		s.VPN = true
		remote = 100 // the tunnel carries the default route; on-link targets would use eth0
	}
	if s.Kind == "arp" {
		remote = 0 // ARP scans are for the attached network (any interface works, keep it simple)
	}
	switch s.Mode {
	case "subnet":
		if s.portless() {
			s.Subnet, s.SubnetArg = genSubnet(p, budget, remote)
		} else {
			s.Ports = genPorts(p, max(1, budget/2), k.chunkedPct)
			np := len(s.portList())
			s.Subnet, s.SubnetArg = genSubnet(p, max(1, budget/np), remote)
		}
	case "pairs":
		s.Entries = genEntries(p, 1+p.n("nentries", min(budget, 40)), true, remote)
	case "ips-ports":
		s.Ports = genPorts(p, max(1, budget/4), k.chunkedPct/2)
		np := len(s.portList())
		s.Entries = genEntries(p, 1+p.n("nentries", max(1, min(budget/np, 30))), false, remote)
		if k.allowStdin && p.pct("stdin", 25) {
			s.FromStdin = true
		}
	case "ips":
		s.Entries = genEntries(p, 1+p.n("nentries", min(budget, 60)), false, remote)
	}
	if len(s.Ports) > 0 && p.pct("portsfile", 15) {
		s.PortsFile = true
		if len(s.Ports) >= 2 && p.pct("portssplit", 40) {
			s.PortsSplit = 1 + p.n("portssplitat", len(s.Ports)-1)
		}
	}
	if k.allowExcl && p.pct("exclude", 35) {
		s.Exclude = genExclude(p, s)
	}
	if !s.app() && s.Kind != "arp" {
		if !s.VPN {
			if p.bool("gwflag") {
				s.GwMAC = gwMAC
			} else {
				s.CacheGw = true
			}
			s.CacheFile = p.pct("cachefile", 30)
		}
	}
	return s
}

func sortedKeys(m map[string]int) []string {
	var ks []string
	for k := range m {
		ks = append(ks, k)
	}
	sort.Strings(ks)
	return ks
}
