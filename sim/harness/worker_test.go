package harness

import (
	"bufio"
	"encoding/json"
	"flag"
	"fmt"
	"os"
	"testing"
	"time"

	"verif/sim/simrt"
)

var (
	fSuite   = flag.String("suite", "", "suite name")
	fSeed    = flag.Uint64("seed", 1, "base seed")
	fFrom    = flag.Int("from", 0, "first run index")
	fTo      = flag.Int("to", 1, "one past the last run index")
	fStride  = flag.Int("stride", 1, "index stride (workers interleave)")
	fTier    = flag.String("tier", "quick", "quick | thorough")
	fOut     = flag.String("out", "", "output file (JSON lines); default stdout")
	fReplay  = flag.String("replay", "", "replay file (choices) instead of seeds")
	fBudget  = flag.Duration("budget", 0, "wall-clock budget for this worker (0 = none)")
	fSamples = flag.Int("samples", 2, "number of runs for which the decoded scenario is kept")
	fTrace   = flag.Bool("trace", false, "include the event trace in the output")
	fList    = flag.Bool("list", false, "list suites")
	fMin     = flag.Bool("minimise", false, "with -replay: minimise the choice list in process and print the minimised replay file")
	fMinN    = flag.Int("mintests", 20000, "maximum number of candidate executions of the minimiser")
	fMinT    = flag.Duration("minbudget", 60*time.Second, "wall-clock budget of the minimiser")
)

// seedFor derives the per-run seed from the base seed, the suite and the run index.
func seedFor(base uint64, suite string, idx int) uint64 {
	h := base*0x9e3779b97f4a7c15 + 0x1234567
	for _, c := range []byte(suite) {
		h = (h ^ uint64(c)) * 0x100000001b3
	}
	h ^= uint64(idx) * 0xd6e8feb86659fd93
	h ^= h >> 32
	h *= 0xd6e8feb86659fd93
	h ^= h >> 32
	return h
}

func toJSON(s *Suite, seed uint64, idx int, o *Out, ch *simrt.Choices, wall time.Duration, keepScenario, trace bool) resultJSON {
	r := resultJSON{Suite: s.Name, Seed: seed, Index: idx, Key: o.Key, Nontrivial: o.Nontrivial,
		Stats: o.Stats, Violations: o.Violations, WallUs: wall.Microseconds()}
	if o.Res != nil {
		r.End = o.Res.End.String()
		r.Steps = o.Res.Steps
		r.VirtNs = int64(o.Res.Virt)
		r.Hash = fmt.Sprintf("%016x", o.Res.Hash)
		r.Multi = o.Res.Multi
		r.MaxG = o.Res.MaxG
		r.Strategy = o.Res.Strategy
		r.Faults = o.Res.Faults
		r.Probes = o.Res.Probes
		if trace {
			for _, e := range o.Res.Trace {
				r.Trace = append(r.Trace, fmt.Sprintf("%d %v %s %s", e.Step, e.T, e.G, e.Site))
			}
		}
	}
	if len(o.Violations) > 0 || keepScenario {
		if b, err := json.Marshal(o.Scenario); err == nil {
			r.Scenario = b
		}
	}
	if len(o.Violations) > 0 {
		r.Choices = ch
	}
	return r
}

type replayFile struct {
	Property string         `json:"property"`
	Suite    string         `json:"suite"`
	Seed     uint64         `json:"seed"`
	Index    int            `json:"index"`
	Tier     string         `json:"tier"`
	Oracle   string         `json:"oracle"`
	Sig      string         `json:"sig"`
	Choices  simrt.Choices  `json:"choices"`
}

func TestWorker(t *testing.T) {
	if *fList {
		for _, n := range suiteNames() {
			e := 0
			if suites[n].Enum != nil {
				e = suites[n].Enum(*fTier)
			}
			fmt.Printf("%s\t%s\tenum=%d\t%s\n", n, suites[n].Prop, e, suites[n].Doc)
		}
		return
	}
	if *fSuite == "" && *fReplay == "" {
		t.Skip("no -suite given")
	}
	out := os.Stdout
	if *fOut != "" {
		f, err := os.Create(*fOut)
		if err != nil {
			t.Fatal(err)
		}
		defer f.Close()
		out = f
	}
	w := bufio.NewWriter(out)
	defer w.Flush()
	enc := json.NewEncoder(w)

	if *fReplay != "" {
		data, err := os.ReadFile(*fReplay)
		if err != nil {
			t.Fatal(err)
		}
		var rf replayFile
		if err := json.Unmarshal(data, &rf); err != nil {
			t.Fatal(err)
		}
		s := suites[rf.Suite]
		if s == nil {
			t.Fatalf("unknown suite %q", rf.Suite)
		}
		tier := rf.Tier
		if tier == "" {
			tier = *fTier
		}
		if *fMin {
			got, tests, ok := minimiseChoices(t, s, &rf, *fMinN, *fMinT)
			enc.Encode(map[string]interface{}{"ok": ok, "tests": tests, "choices": got})
			return
		}
		ch := simrt.NewReplayChooser(rf.Choices)
		start := time.Now()
		o := s.Run(t, ch, Opts{Tier: tier, Index: rf.Index, Trace: *fTrace})
		r := toJSON(s, rf.Seed, rf.Index, o, &ch.Rec, time.Since(start), true, *fTrace)
		r.Choices = &ch.Rec
		enc.Encode(r)
		return
	}

	s := suites[*fSuite]
	if s == nil {
		t.Fatalf("unknown suite %q (have %v)", *fSuite, suiteNames())
	}
	deadline := time.Time{}
	if *fBudget > 0 {
		deadline = time.Now().Add(*fBudget)
	}
	kept := 0
	for i := *fFrom; i < *fTo; i += *fStride {
		if !deadline.IsZero() && time.Now().After(deadline) {
			break
		}
		seed := seedFor(*fSeed, s.Name, i)
		ch := simrt.NewSeedChooser(seed)
		start := time.Now()
		o := s.Run(t, ch, Opts{Tier: *fTier, Index: i, Trace: *fTrace})
		keep := kept < *fSamples && o.Nontrivial
		if keep {
			kept++
		}
		enc.Encode(toJSON(s, seed, i, o, &ch.Rec, time.Since(start), keep, *fTrace))
		w.Flush()
	}
}
