// Package pktcodec is the oracle-side packet codec: a hand-written encoder, strict decoder and
// checksum verifier for Ethernet / ARP / IPv4 / TCP / UDP / ICMPv4.  It deliberately shares no
// code with gopacket, which is what sx uses.
package pktcodec

import (
	"encoding/binary"
	"fmt"
)

const (
	EtherTypeIPv4 = 0x0800
	EtherTypeARP  = 0x0806
	EtherTypeIPv6 = 0x86dd
	EtherTypeVLAN = 0x8100

	ProtoICMP = 1
	ProtoIPIP = 4
	ProtoTCP  = 6
	ProtoUDP  = 17
)

// TCP flag bits (9 bits: NS is bit 8).
const (
	FIN = 1 << iota
	SYN
	RST
	PSH
	ACK
	URG
	ECE
	CWR
	NS
)

type ARP struct {
	HType, PType uint16
	HLen, PLen   uint8
	Op           uint16
	SHA, SPA     []byte
	THA, TPA     []byte
}

type IPv4 struct {
	Version  uint8
	IHL      uint8
	TOS      uint8
	TotalLen uint16
	ID       uint16
	Flags    uint8 // 3 bits: bit2 = reserved(evil), bit1 = DF, bit0 = MF  (as in the header, high to low: R, DF, MF)
	FragOff  uint16
	TTL      uint8
	Proto    uint8
	Csum     uint16
	Src, Dst [4]byte
	Options  []byte
	CsumOK   bool
}

type TCP struct {
	SrcPort, DstPort uint16
	Seq, Ack         uint32
	DataOff          uint8
	Flags            uint16
	Window           uint16
	Csum             uint16
	Urgent           uint16
	Options          []byte
	Payload          []byte
	CsumOK           bool
}

type UDP struct {
	SrcPort, DstPort uint16
	Len              uint16
	Csum             uint16
	Payload          []byte
	CsumOK           bool
}

type ICMP struct {
	Type, Code uint8
	Csum       uint16
	Rest       [4]byte
	Payload    []byte
	CsumOK     bool
}

// Packet is a decoded frame.
type Packet struct {
	HasEth   bool
	EthDst   [6]byte
	EthSrc   [6]byte
	EthType  uint16
	ARP      *ARP
	IP       *IPv4
	TCP      *TCP
	UDP      *UDP
	ICMP     *ICMP
	L4Raw    []byte // bytes after the IPv4 header (within TotalLen)
	Trailer  []byte // bytes after the end of the IP datagram / ARP packet (padding)
	Problems []string
}

func (p *Packet) problem(f string, a ...interface{}) { p.Problems = append(p.Problems, fmt.Sprintf(f, a...)) }

func sum16(b []byte, acc uint32) uint32 {
	for i := 0; i+1 < len(b); i += 2 {
		acc += uint32(b[i])<<8 | uint32(b[i+1])
	}
	if len(b)%2 == 1 {
		acc += uint32(b[len(b)-1]) << 8
	}
	return acc
}

func fold(acc uint32) uint16 {
	for acc>>16 != 0 {
		acc = acc&0xffff + acc>>16
	}
	return ^uint16(acc)
}

// Checksum is the Internet checksum of b.
func Checksum(b []byte) uint16 { return fold(sum16(b, 0)) }

func pseudo(src, dst [4]byte, proto uint8, l int) uint32 {
	var acc uint32
	acc = sum16(src[:], acc)
	acc = sum16(dst[:], acc)
	acc += uint32(proto)
	acc += uint32(l)
	return acc
}

// Decode strictly decodes a frame.  ethernet=false means the frame starts with the IPv4 header
// (raw-IP / VPN framing).  A structural failure returns an error; softer inconsistencies are
// listed in Problems.
func Decode(data []byte, ethernet bool) (*Packet, error) {
	p := &Packet{HasEth: ethernet}
	rest := data
	if ethernet {
		if len(rest) < 14 {
			return nil, fmt.Errorf("short ethernet header: %d bytes", len(rest))
		}
		copy(p.EthDst[:], rest[0:6])
		copy(p.EthSrc[:], rest[6:12])
		p.EthType = binary.BigEndian.Uint16(rest[12:14])
		rest = rest[14:]
		switch p.EthType {
		case EtherTypeARP:
			return p, p.decodeARP(rest)
		case EtherTypeIPv4:
		default:
			return p, fmt.Errorf("unsupported ethertype %#04x", p.EthType)
		}
	}
	return p, p.decodeIPv4(rest)
}

func (p *Packet) decodeARP(b []byte) error {
	if len(b) < 8 {
		return fmt.Errorf("short ARP header")
	}
	a := &ARP{
		HType: binary.BigEndian.Uint16(b[0:2]), PType: binary.BigEndian.Uint16(b[2:4]),
		HLen: b[4], PLen: b[5], Op: binary.BigEndian.Uint16(b[6:8]),
	}
	need := 8 + 2*int(a.HLen) + 2*int(a.PLen)
	if len(b) < need {
		return fmt.Errorf("short ARP body: have %d need %d", len(b), need)
	}
	o := 8
	a.SHA = b[o : o+int(a.HLen)]
	o += int(a.HLen)
	a.SPA = b[o : o+int(a.PLen)]
	o += int(a.PLen)
	a.THA = b[o : o+int(a.HLen)]
	o += int(a.HLen)
	a.TPA = b[o : o+int(a.PLen)]
	o += int(a.PLen)
	p.ARP = a
	p.Trailer = b[o:]
	return nil
}

func (p *Packet) decodeIPv4(b []byte) error {
	if len(b) < 20 {
		return fmt.Errorf("short IPv4 header: %d bytes", len(b))
	}
	ip := &IPv4{Version: b[0] >> 4, IHL: b[0] & 0xf, TOS: b[1], TotalLen: binary.BigEndian.Uint16(b[2:4]),
		ID: binary.BigEndian.Uint16(b[4:6]), Flags: b[6] >> 5, FragOff: binary.BigEndian.Uint16(b[6:8]) & 0x1fff,
		TTL: b[8], Proto: b[9], Csum: binary.BigEndian.Uint16(b[10:12])}
	copy(ip.Src[:], b[12:16])
	copy(ip.Dst[:], b[16:20])
	if ip.Version != 4 {
		return fmt.Errorf("IP version %d", ip.Version)
	}
	if ip.IHL < 5 {
		return fmt.Errorf("IHL %d < 5", ip.IHL)
	}
	hl := int(ip.IHL) * 4
	if len(b) < hl {
		return fmt.Errorf("IPv4 header truncated: IHL %d, have %d bytes", ip.IHL, len(b))
	}
	ip.Options = b[20:hl]
	ip.CsumOK = Checksum(b[:hl]) == 0
	p.IP = ip
	end := int(ip.TotalLen)
	if end < hl {
		p.problem("IPv4 total length %d < header length %d", end, hl)
		end = hl
	}
	if end > len(b) {
		p.problem("IPv4 total length %d > available %d", end, len(b))
		end = len(b)
	}
	p.L4Raw = b[hl:end]
	p.Trailer = b[end:]
	if !ip.CsumOK {
		p.problem("bad IPv4 header checksum")
	}
	if ip.FragOff != 0 {
		return nil // not the first fragment: no transport header
	}
	l4 := p.L4Raw
	switch ip.Proto {
	case ProtoTCP:
		if len(l4) < 20 {
			p.problem("short TCP header: %d bytes", len(l4))
			return nil
		}
		t := &TCP{SrcPort: binary.BigEndian.Uint16(l4[0:2]), DstPort: binary.BigEndian.Uint16(l4[2:4]),
			Seq: binary.BigEndian.Uint32(l4[4:8]), Ack: binary.BigEndian.Uint32(l4[8:12]),
			DataOff: l4[12] >> 4, Flags: uint16(l4[12]&1)<<8 | uint16(l4[13]),
			Window: binary.BigEndian.Uint16(l4[14:16]), Csum: binary.BigEndian.Uint16(l4[16:18]),
			Urgent: binary.BigEndian.Uint16(l4[18:20])}
		do := int(t.DataOff) * 4
		if do < 20 || do > len(l4) {
			p.problem("TCP data offset %d invalid for segment of %d bytes", t.DataOff, len(l4))
			return nil
		}
		t.Options = l4[20:do]
		t.Payload = l4[do:]
		t.CsumOK = fold(sum16(l4, pseudo(ip.Src, ip.Dst, ProtoTCP, len(l4)))) == 0
		if !t.CsumOK {
			p.problem("bad TCP checksum")
		}
		p.TCP = t
	case ProtoUDP:
		if len(l4) < 8 {
			p.problem("short UDP header: %d bytes", len(l4))
			return nil
		}
		u := &UDP{SrcPort: binary.BigEndian.Uint16(l4[0:2]), DstPort: binary.BigEndian.Uint16(l4[2:4]),
			Len: binary.BigEndian.Uint16(l4[4:6]), Csum: binary.BigEndian.Uint16(l4[6:8])}
		if int(u.Len) != len(l4) {
			p.problem("UDP length %d != datagram payload %d", u.Len, len(l4))
		}
		u.Payload = l4[8:]
		if u.Csum == 0 {
			u.CsumOK = true // checksum not used
		} else {
			u.CsumOK = fold(sum16(l4, pseudo(ip.Src, ip.Dst, ProtoUDP, len(l4)))) == 0
		}
		if !u.CsumOK {
			p.problem("bad UDP checksum")
		}
		p.UDP = u
	case ProtoICMP:
		if len(l4) < 8 {
			p.problem("short ICMP header: %d bytes", len(l4))
			return nil
		}
		c := &ICMP{Type: l4[0], Code: l4[1], Csum: binary.BigEndian.Uint16(l4[2:4])}
		copy(c.Rest[:], l4[4:8])
		c.Payload = l4[8:]
		c.CsumOK = Checksum(l4) == 0
		if !c.CsumOK {
			p.problem("bad ICMP checksum")
		}
		p.ICMP = c
	}
	return nil
}

// ---- encoding ----------------------------------------------------------------------------

// EthHeader returns a 14-byte Ethernet header.
func EthHeader(dst, src [6]byte, typ uint16) []byte {
	b := make([]byte, 14)
	copy(b[0:6], dst[:])
	copy(b[6:12], src[:])
	binary.BigEndian.PutUint16(b[12:14], typ)
	return b
}

// EncodeARP returns an ARP packet body.
func EncodeARP(a *ARP) []byte {
	b := make([]byte, 8, 8+2*len(a.SHA)+2*len(a.SPA))
	binary.BigEndian.PutUint16(b[0:2], a.HType)
	binary.BigEndian.PutUint16(b[2:4], a.PType)
	b[4], b[5] = a.HLen, a.PLen
	binary.BigEndian.PutUint16(b[6:8], a.Op)
	b = append(b, a.SHA...)
	b = append(b, a.SPA...)
	b = append(b, a.THA...)
	b = append(b, a.TPA...)
	return b
}

// IPOpts controls EncodeIPv4.
type IPOpts struct {
	ID       uint16
	TTL      uint8
	Flags    uint8
	FragOff  uint16
	Options  []byte // padded by the caller to a multiple of 4
	TotalLen int    // -1/0 = computed
	IHL      int    // 0 = computed
	BadCsum  bool
	TOS      uint8
}

// EncodeIPv4 returns header+payload.
func EncodeIPv4(src, dst [4]byte, proto uint8, payload []byte, o IPOpts) []byte {
	hl := 20 + len(o.Options)
	b := make([]byte, hl, hl+len(payload))
	ihl := hl / 4
	if o.IHL != 0 {
		ihl = o.IHL
	}
	b[0] = 4<<4 | byte(ihl&0xf)
	b[1] = o.TOS
	tl := hl + len(payload)
	if o.TotalLen > 0 {
		tl = o.TotalLen
	}
	binary.BigEndian.PutUint16(b[2:4], uint16(tl))
	binary.BigEndian.PutUint16(b[4:6], o.ID)
	binary.BigEndian.PutUint16(b[6:8], uint16(o.Flags&7)<<13|o.FragOff&0x1fff)
	ttl := o.TTL
	if ttl == 0 {
		ttl = 64
	}
	b[8] = ttl
	b[9] = proto
	copy(b[12:16], src[:])
	copy(b[16:20], dst[:])
	copy(b[20:], o.Options)
	cs := Checksum(b[:hl])
	if o.BadCsum {
		cs ^= 0x5555
	}
	binary.BigEndian.PutUint16(b[10:12], cs)
	return append(b, payload...)
}

// EncodeTCP returns a TCP segment with a correct checksum for src/dst.
func EncodeTCP(src, dst [4]byte, sport, dport uint16, seq, ack uint32, flags uint16, window uint16, options, payload []byte) []byte {
	for len(options)%4 != 0 {
		options = append(options, 0)
	}
	do := 20 + len(options)
	b := make([]byte, do, do+len(payload))
	binary.BigEndian.PutUint16(b[0:2], sport)
	binary.BigEndian.PutUint16(b[2:4], dport)
	binary.BigEndian.PutUint32(b[4:8], seq)
	binary.BigEndian.PutUint32(b[8:12], ack)
	b[12] = byte(do/4)<<4 | byte(flags>>8&1)
	b[13] = byte(flags)
	binary.BigEndian.PutUint16(b[14:16], window)
	copy(b[20:], options)
	b = append(b, payload...)
	cs := fold(sum16(b, pseudo(src, dst, ProtoTCP, len(b))))
	binary.BigEndian.PutUint16(b[16:18], cs)
	return b
}

// EncodeUDP returns a UDP datagram with a correct checksum.
func EncodeUDP(src, dst [4]byte, sport, dport uint16, payload []byte) []byte {
	b := make([]byte, 8, 8+len(payload))
	binary.BigEndian.PutUint16(b[0:2], sport)
	binary.BigEndian.PutUint16(b[2:4], dport)
	binary.BigEndian.PutUint16(b[4:6], uint16(8+len(payload)))
	b = append(b, payload...)
	cs := fold(sum16(b, pseudo(src, dst, ProtoUDP, len(b))))
	if cs == 0 {
		cs = 0xffff
	}
	binary.BigEndian.PutUint16(b[6:8], cs)
	return b
}

// EncodeICMP returns an ICMPv4 message with a correct checksum.
func EncodeICMP(typ, code uint8, rest [4]byte, payload []byte) []byte {
	b := make([]byte, 8, 8+len(payload))
	b[0], b[1] = typ, code
	copy(b[4:8], rest[:])
	b = append(b, payload...)
	binary.BigEndian.PutUint16(b[2:4], Checksum(b))
	return b
}

// IP4 converts a.b.c.d given as uint32 (big endian) to a 4-byte array.
func IP4(v uint32) (a [4]byte) {
	binary.BigEndian.PutUint32(a[:], v)
	return
}

// U32 converts a 4-byte address to uint32.
func U32(a [4]byte) uint32 { return binary.BigEndian.Uint32(a[:]) }

// IPString renders a 4-byte address.
func IPString(a [4]byte) string { return fmt.Sprintf("%d.%d.%d.%d", a[0], a[1], a[2], a[3]) }

// MACString renders a MAC like net.HardwareAddr.String.
func MACString(m []byte) string {
	s := ""
	for i, b := range m {
		if i > 0 {
			s += ":"
		}
		s += fmt.Sprintf("%02x", b)
	}
	return s
}

// DecodeTransportAs re-decodes the bytes after the IPv4 header as the given protocol, whatever
// the protocol field of the header says (used when --ipproto overrides the field).
func (p *Packet) DecodeTransportAs(proto uint8) *Packet {
	if p.IP == nil {
		return p
	}
	q := &Packet{HasEth: p.HasEth, EthDst: p.EthDst, EthSrc: p.EthSrc, EthType: p.EthType}
	ip := *p.IP
	ip.Proto = proto
	hdr := EncodeIPv4(ip.Src, ip.Dst, proto, p.L4Raw, IPOpts{ID: ip.ID, TTL: ip.TTL, Flags: ip.Flags, FragOff: ip.FragOff, Options: ip.Options, TOS: ip.TOS})
	_ = q.decodeIPv4(hdr)
	q.Trailer = p.Trailer
	return q
}

// TCPOptionsWellFormed walks the option list of a TCP header.
func TCPOptionsWellFormed(opts []byte) error {
	i := 0
	for i < len(opts) {
		switch opts[i] {
		case 0: // end of option list: the rest must be padding
			for _, b := range opts[i:] {
				if b != 0 {
					return fmt.Errorf("non-zero byte after end-of-options")
				}
			}
			return nil
		case 1:
			i++
		default:
			if i+1 >= len(opts) {
				return fmt.Errorf("option kind %d without length", opts[i])
			}
			l := int(opts[i+1])
			if l < 2 || i+l > len(opts) {
				return fmt.Errorf("option kind %d has bad length %d", opts[i], l)
			}
			i += l
		}
	}
	return nil
}
