// Package simsignal replaces os/signal in the instrumented sx sources: NotifyContext returns a
// context that the simulator cancels when it injects Ctrl-C.
package simsignal

import (
	"context"
	"os"

	"verif/sim/simrt"
)

func NotifyContext(parent context.Context, signals ...os.Signal) (context.Context, context.CancelFunc) {
	ctx, cancel := context.WithCancel(parent)
	if r := simrt.Current(); r != nil {
		r.RegisterSignal(cancel)
	}
	return ctx, cancel
}

// Notify / Stop / Ignore / Reset exist so that other uses of os/signal still compile; they do nothing.
func Notify(c chan<- os.Signal, sig ...os.Signal) {}
func Stop(c chan<- os.Signal)                     {}
func Ignore(sig ...os.Signal)                     {}
func Reset(sig ...os.Signal)                      {}
func Ignored(sig os.Signal) bool                  { return false }
