// Package simrt is the deterministic scheduler of the sx simulation.
//
// One simulated execution ("run") lives in one testing/synctest bubble.  Every goroutine
// of the instrumented program is created through Go and calls Pre before (and Post after)
// each synchronisation operation.  At any moment at most one registered goroutine executes
// instrumented code; the scheduler (the bubble's root goroutine) waits for quiescence with
// synctest.Wait, sorts the parked goroutines by their schedule-independent id and asks the
// Chooser which one continues.  Virtual time advances only when nothing is runnable.
package simrt

import (
	"bytes"
	"fmt"
	"hash/fnv"
	"runtime"
	"sort"
	"strconv"
	"sync"
	"sync/atomic"
	"testing"
	"testing/synctest"
	"time"
)

// Streams of the choice source.
const (
	StreamScenario = 0
	StreamSched    = 1
	StreamWorld    = 2
	NumStreams     = 3
)

// Chooser is the single source of every nondeterministic decision of a run.
type Chooser interface {
	// Choose returns a value in [0,n). n must be >= 1.
	Choose(stream int, label string, n int) int
}

// G is a registered (scheduled) goroutine.
type G struct {
	ID    string
	path  []int
	goid  uint64
	wake  chan struct{}
	site  string
	gen   uint64
	spawn int
	prio  int
	dead  bool
	ticks uint64 // preemption ticks executed by this goroutine (touched by itself only)
	idh   uint64
}

// PanicRec describes a panic in a registered goroutine.
type PanicRec struct {
	G     string
	Value string
	Stack string
	Step  int
	Site  string
}

// Verdict of the scheduler about how the run ended.
type End int

const (
	EndDriverReturned End = iota
	EndPanic
	EndHang       // nothing runnable, no timer pending before the sentinel
	EndStepCap    // step budget exhausted
	EndTimeCap    // virtual time budget exhausted
	EndBusyLoop   // too many steps without virtual time advancing (only if configured)
)

func (e End) String() string {
	return [...]string{"driver-returned", "panic", "hang", "step-cap", "time-cap", "busy-loop"}[e]
}

// Config of one run.
type Config struct {
	Chooser   Chooser
	MaxSteps  int           // 0 = 2_000_000
	MaxVirt   time.Duration // 0 = 100h
	Sentinel  time.Duration // 0 = 30h ; idle longer than this with no event = hang
	Trace     bool          // keep the full event trace
	SigintStep int          // >0: cancel all NotifyContexts right before that scheduling step
	SigintAt   time.Duration // >0: cancel all NotifyContexts at that virtual time
	MaxStepsNoTime int       // >0: declare busy loop after this many steps without time advance
	NoPreempt bool           // never preempt between ordinary statements (Tick)
	PreemptM  int            // >0: preempt at about one tick in PreemptM in this run (overrides the default draw)
}

// TraceEvent is one scheduling step or world event.
type TraceEvent struct {
	Step int
	T    time.Duration
	G    string
	Site string
}

// Run is the state of one simulated execution.
type Run struct {
	cfg Config

	mu      sync.Mutex
	gs      map[uint64]*G
	parked  map[*G]struct{}
	current *G
	gen     uint64
	step    int
	kick    chan struct{}

	driverDone bool
	crashed    bool
	ended      bool
	end        End
	panics     []PanicRec
	lowPrio    int      // next fairness priority (negative, decreasing)
	blocked    []string // sites of goroutines parked/alive at end
	alive      []string

	start     time.Time
	hash      uint64
	trace     []TraceEvent
	probes    map[string]int
	faults    map[string]int
	multi     int // steps with >= 2 runnable goroutines
	liveG     int
	maxG      int
	spawned   int
	lastTimeStep int
	lastTime  time.Duration
	prevNow   time.Duration

	sigs     []func()
	sigFired bool
	SigStep  int           // step at which sigint was delivered (0 = never)
	SigTime  time.Duration // virtual time at which sigint was delivered

	strategy   int
	stickyP    int
	lastRunner *G
	pctChange  map[int]bool
	rr         int

	numCPU int
	onEnd  []func()
	preemptM    uint64 // 0 = no preemption between ordinary statements in this run
	preemptSalt uint64
	worldRoot *G
	attached map[string]interface{}
}

var cur atomic.Pointer[Run]

// Current returns the active run (nil outside a run).
func Current() *Run { return cur.Load() }

// Result summarises a finished run.
type Result struct {
	End      End
	Steps    int
	Virt     time.Duration
	Hash     uint64
	Panics   []PanicRec
	Blocked  []string
	Alive    []string // registered goroutines that had not ended when the run ended (id@last site)
	Probes   map[string]int
	Faults   map[string]int
	Multi    int
	MaxG     int
	Spawned  int
	Trace    []TraceEvent
	SigStep  int
	SigTime  time.Duration
	SigFired bool // Ctrl-C was delivered (SigStep and SigTime may both be 0: before the first step)
	Strategy string
}

var strategyNames = []string{"uniform", "sticky", "pct", "roundrobin", "first"}

// Execute runs driver under the deterministic scheduler inside a fresh synctest bubble.
// setup runs inside the bubble (as the scheduler goroutine) before the driver starts; it must
// create every channel/timer of the simulated world there.
func Execute(t *testing.T, cfg Config, setup func(r *Run), driver func(r *Run)) (res Result) {
	if cfg.MaxSteps == 0 {
		cfg.MaxSteps = 2_000_000
	}
	if cfg.MaxVirt == 0 {
		cfg.MaxVirt = 100 * time.Hour
	}
	if cfg.Sentinel == 0 {
		cfg.Sentinel = 30 * time.Hour
	}
	r := &Run{
		cfg:    cfg,
		gs:     map[uint64]*G{},
		parked: map[*G]struct{}{},
		probes: map[string]int{},
		faults: map[string]int{},
		attached: map[string]interface{}{},
	}
	func() {
		defer func() {
			// The bubble ends with leaked (blocked) goroutines whenever sx leaks helpers or
			// the run was cut short; synctest reports that as a deadlock panic.
			if p := recover(); p != nil {
				s := fmt.Sprint(p)
				if !bytes.Contains([]byte(s), []byte("deadlock:")) {
					panic(p)
				}
			}
		}()
		synctest.Test(t, func(t *testing.T) {
			r.start = time.Now()
			r.kick = make(chan struct{}, 1)
			cur.Store(r)
			defer cur.Store(nil)
			r.initStrategy()
			if setup != nil {
				setup(r)
			}
			if cfg.SigintAt > 0 {
				time.AfterFunc(cfg.SigintAt, func() { r.fireSigint() })
			}
			root := &G{ID: "r", path: nil, wake: make(chan struct{}, 1)}
			r.spawn(root, "driver", func() { driver(r) }, true)
			r.loop()
			r.mu.Lock()
			r.ended = true
			onEnd := append([]func(){}, r.onEnd...)
			r.mu.Unlock()
			// tear the simulated world down so that goroutines outside the scheduler terminate
			// (the bubble cannot be left while they keep running)
			for _, f := range onEnd {
				f()
			}
			r.mu.Lock()
			for g := range r.parked {
				r.blocked = append(r.blocked, g.ID+"@"+g.site)
			}
			sort.Strings(r.blocked)
			for _, g := range r.gs {
				if !g.dead {
					r.alive = append(r.alive, g.ID+"@"+g.site)
				}
			}
			sort.Strings(r.alive)
			r.mu.Unlock()
		})
	}()
	res = Result{
		End: r.end, Steps: r.step, Virt: r.lastNow(), Hash: r.hash, Panics: r.panics,
		Blocked: r.blocked, Alive: r.alive, Probes: r.probes, Faults: r.faults, Multi: r.multi, MaxG: r.maxG,
		Spawned: r.spawned, Trace: r.trace, SigStep: r.SigStep, SigTime: r.SigTime, SigFired: r.sigFired,
		Strategy: strategyNames[r.strategy],
	}
	return res
}

func (r *Run) lastNow() time.Duration { return r.lastTime }

// Now is the virtual time since the start of the run.
func (r *Run) Now() time.Duration { return time.Since(r.start) }

// Step is the number of scheduling steps taken so far.
func (r *Run) Step() int {
	r.mu.Lock()
	defer r.mu.Unlock()
	return r.step
}

// OnEnd registers a function that runs (inside the bubble) right after the scheduler has ended the run.
func (r *Run) OnEnd(f func()) {
	r.mu.Lock()
	r.onEnd = append(r.onEnd, f)
	r.mu.Unlock()
}

// Ended reports whether the scheduler has ended the run.
func (r *Run) Ended() bool {
	r.mu.Lock()
	defer r.mu.Unlock()
	return r.ended
}

// Attach stores per-run data of the simulated world under a key.
func (r *Run) Attach(key string, v interface{}) {
	r.mu.Lock()
	r.attached[key] = v
	r.mu.Unlock()
}

// Attached returns per-run data stored with Attach.
func (r *Run) Attached(key string) interface{} {
	r.mu.Lock()
	defer r.mu.Unlock()
	return r.attached[key]
}

// Choose draws from the run's chooser (scenario stream).
func (r *Run) Choose(label string, n int) int {
	if n <= 1 {
		return 0
	}
	return r.cfg.Chooser.Choose(StreamScenario, label, n)
}

// ChooseWorld draws a runtime decision of the simulated world (latency, fault, pool reuse).
func (r *Run) ChooseWorld(label string, n int) int {
	if n <= 1 {
		return 0
	}
	return r.cfg.Chooser.Choose(StreamWorld, label, n)
}

func (r *Run) chooseSched(label string, n int) int {
	if n <= 1 {
		return 0
	}
	return r.cfg.Chooser.Choose(StreamSched, label, n)
}

// Probe counts that a rare condition was reached.
func Probe(name string) {
	if r := cur.Load(); r != nil {
		r.mu.Lock()
		r.probes[name]++
		r.mu.Unlock()
	}
}

// Fault counts an injected fault that actually fired.
func Fault(kind string) {
	if r := cur.Load(); r != nil {
		r.mu.Lock()
		r.faults[kind]++
		r.mu.Unlock()
	}
}

// Event mixes a world event into the trace hash (and the trace if enabled).
func Event(site string) {
	r := cur.Load()
	if r == nil {
		return
	}
	if r.me() == nil {
		return // unscheduled (foreign) goroutines must not perturb the trace hash
	}
	now := r.Now()
	r.mu.Lock()
	r.mix(r.step, now, "w", site)
	r.mu.Unlock()
}

func (r *Run) mix(step int, now time.Duration, g, site string) {
	h := fnv.New64a()
	var b [8]byte
	put := func(v uint64) {
		for i := 0; i < 8; i++ {
			b[i] = byte(v >> (8 * i))
		}
		h.Write(b[:])
	}
	put(r.hash)
	put(uint64(step))
	put(uint64(now))
	h.Write([]byte(g))
	h.Write([]byte{0})
	h.Write([]byte(site))
	r.hash = h.Sum64()
	if r.cfg.Trace {
		r.trace = append(r.trace, TraceEvent{step, now, g, site})
	}
}

func goid() uint64 {
	var buf [64]byte
	n := runtime.Stack(buf[:], false)
	// "goroutine 123 ["
	s := buf[len("goroutine "):n]
	i := bytes.IndexByte(s, ' ')
	id, _ := strconv.ParseUint(string(s[:i]), 10, 64)
	return id
}

func (r *Run) me() *G {
	id := goid()
	r.mu.Lock()
	g := r.gs[id]
	r.mu.Unlock()
	return g
}

func comparePath(a, b []int) bool {
	for i := 0; i < len(a) && i < len(b); i++ {
		if a[i] != b[i] {
			return a[i] < b[i]
		}
	}
	return len(a) < len(b)
}

func (r *Run) spawn(parent *G, site string, fn func(), isDriver bool) {
	r.mu.Lock()
	k := parent.spawn
	parent.spawn++
	path := append(append([]int{}, parent.path...), k)
	id := parent.ID + "." + strconv.Itoa(k)
	g := &G{ID: id, path: path, wake: make(chan struct{}, 1)}
	for _, ch := range []byte(id) {
		g.idh = tickMix(g.idh, uint64(ch))
	}
	r.spawned++
	r.mu.Unlock()
	started := make(chan struct{})
	go func() {
		g.goid = goid()
		r.mu.Lock()
		r.gs[g.goid] = g
		r.liveG++
		if r.liveG > r.maxG {
			r.maxG = r.liveG
		}
		r.mu.Unlock()
		close(started)
		defer func() {
			p := recover()
			r.mu.Lock()
			delete(r.gs, g.goid)
			r.liveG--
			g.dead = true
			if p != nil && !r.ended {
				stack := make([]byte, 8192)
				stack = stack[:runtime.Stack(stack, false)]
				r.panics = append(r.panics, PanicRec{G: g.ID, Value: fmt.Sprint(p), Stack: string(stack), Step: r.step, Site: g.site})
				r.crashed = true
			}
			if isDriver {
				r.driverDone = true
			}
			r.mu.Unlock()
			r.doKick()
		}()
		r.park(g, "start:"+site)
		fn()
	}()
	// Registration must have happened before the parent goes on, so that the set of
	// registered goroutines never depends on the Go scheduler.
	<-started
}

func (r *Run) doKick() {
	select {
	case r.kick <- struct{}{}:
	default:
	}
}

func (r *Run) park(g *G, site string) {
	r.mu.Lock()
	g.site = site
	r.parked[g] = struct{}{}
	r.mu.Unlock()
	r.doKick()
	<-g.wake
}

// Go starts fn as a scheduled goroutine. Arguments of the original go statement must have been
// evaluated by the caller.
func Go(site string, fn func()) {
	r := cur.Load()
	if r == nil {
		go fn()
		return
	}
	parent := r.me()
	if parent == nil {
		// spawned by a foreign goroutine: runs free (documented as unscheduled)
		Probe("foreign-go")
		go fn()
		return
	}
	r.spawn(parent, site, fn, false)
}

// Pre is a scheduling point: the caller parks until the scheduler releases it.
func Pre(site string) {
	r := cur.Load()
	if r == nil {
		return
	}
	g := r.me()
	if g == nil {
		return
	}
	r.park(g, site)
}

// Post is called after an operation that may have blocked.  If the scheduler has moved on
// while the caller was blocked, the caller parks until it is scheduled again.
func Post() {
	r := cur.Load()
	if r == nil {
		return
	}
	g := r.me()
	if g == nil {
		return
	}
	r.mu.Lock()
	still := r.current == g && g.gen == r.gen && !r.ended
	r.mu.Unlock()
	if still {
		return
	}
	r.park(g, "post:"+g.site)
}

func tickMix(a, b uint64) uint64 {
	x := a ^ (b+0x9e3779b97f4a7c15)*0xbf58476d1ce4e5b9
	x ^= x >> 31
	x *= 0x94d049bb133111eb
	x ^= x >> 29
	return x
}

// Tick is placed by simgen before every ordinary statement of sx.  In runs with preemption
// enabled it parks the calling goroutine at a pseudo-random subset of the ticks it executes: a
// function of (run salt, goroutine id, how many ticks this goroutine has executed), so the
// decision needs no entry in the choice list and is the same in every replay.
func Tick() {
	r := cur.Load()
	if r == nil || r.preemptM == 0 {
		return
	}
	g := r.me()
	if g == nil {
		return
	}
	g.ticks++
	if tickMix(r.preemptSalt^g.idh, g.ticks)%r.preemptM != 0 {
		return
	}
	r.mu.Lock()
	r.probes["preempted-between-statements"]++
	r.mu.Unlock()
	r.park(g, "tick")
}

// Yield is Pre+Post in one: a pure scheduling point.
func Yield(site string) { Pre(site) }

func (r *Run) initStrategy() {
	r.strategy = r.chooseSched("strategy", 4)
	// preemption between ordinary statements (see Tick): off in most runs
	if r.cfg.PreemptM > 0 {
		r.preemptM = uint64(r.cfg.PreemptM)
		r.preemptSalt = uint64(r.chooseSched("preemptsalt", 1<<30))
	} else if !r.cfg.NoPreempt {
		switch r.chooseSched("preempt", 8) {
		case 5:
			r.preemptM = 8
		case 6:
			r.preemptM = 48
		case 7:
			r.preemptM = 400
		}
		if r.preemptM > 0 {
			r.preemptSalt = uint64(r.chooseSched("preemptsalt", 1<<30))
		}
	}
	switch r.strategy {
	case 1:
		r.stickyP = []int{2, 5, 10, 25, 50}[r.chooseSched("stickyP", 5)]
	case 2:
		d := 1 + r.chooseSched("pctD", 4)
		r.pctChange = map[int]bool{}
		for i := 0; i < d; i++ {
			r.pctChange[1+r.chooseSched("pctK", 3000)] = true
		}
	}
}

func (r *Run) pick(list []*G) int {
	n := len(list)
	if n == 1 {
		return 0
	}
	switch r.strategy {
	case 0:
		return r.chooseSched("g", n)
	case 1:
		li := -1
		for i, g := range list {
			if g == r.lastRunner {
				li = i
			}
		}
		if li >= 0 && r.chooseSched("sw", 100) >= r.stickyP {
			return li
		}
		return r.chooseSched("g", n)
	case 2:
		for _, g := range list {
			if g.prio == 0 {
				g.prio = 1000 + r.chooseSched("prio", 1_000_000)
			}
		}
		best := 0
		for i, g := range list {
			if g.prio > list[best].prio {
				best = i
			}
		}
		if r.pctChange[r.step] {
			list[best].prio = 1 + r.chooseSched("lowprio", 999)
		}
		// fairness: goroutines that spin through scheduling points without ever blocking (e.g. the
		// generator loops after a cancel, which keep iterating over the remaining range) must not
		// starve the others for ever - a real scheduler preempts them.  Every 2000 steps the
		// goroutine that holds the top priority drops to a low one.
		if r.step > 0 && r.step%2000 == 0 {
			// strictly below every priority handed out so far (a random low value is not enough:
			// goroutines demoted earlier to an even lower one would starve behind the spinner)
			r.lowPrio--
			list[best].prio = r.lowPrio
		}
		return best
	case 3:
		r.rr++
		return r.rr % n
	default:
		return 0
	}
}

func (r *Run) fireSigint() {
	r.mu.Lock()
	if r.sigFired {
		r.mu.Unlock()
		return
	}
	r.sigFired = true
	r.SigStep = r.step
	r.SigTime = time.Since(r.start)
	fns := append([]func(){}, r.sigs...)
	r.mix(r.step, r.SigTime, "w", "sigint")
	r.mu.Unlock()
	Fault("sigint")
	for _, f := range fns {
		f()
	}
}

// Sigint delivers the simulated Ctrl-C now (may be called by world code).
func (r *Run) Sigint() { r.fireSigint() }

// SigintFired reports whether Ctrl-C has been delivered.
func (r *Run) SigintFired() bool {
	r.mu.Lock()
	defer r.mu.Unlock()
	return r.sigFired
}

// RegisterSignal registers a cancel function to be called on the simulated Ctrl-C.
func (r *Run) RegisterSignal(cancel func()) {
	r.mu.Lock()
	fired := r.sigFired
	r.sigs = append(r.sigs, cancel)
	r.mu.Unlock()
	if fired {
		cancel()
	}
}

func (r *Run) loop() {
	for {
		synctest.Wait()
		now := time.Since(r.start)
		r.mu.Lock()
		r.lastTime = now
		if r.crashed {
			r.end = EndPanic
			r.mu.Unlock()
			return
		}
		if r.driverDone {
			r.end = EndDriverReturned
			r.mu.Unlock()
			return
		}
		if r.step >= r.cfg.MaxSteps {
			r.end = EndStepCap
			r.mu.Unlock()
			return
		}
		if now > r.cfg.MaxVirt {
			r.end = EndTimeCap
			r.mu.Unlock()
			return
		}
		list := make([]*G, 0, len(r.parked))
		for g := range r.parked {
			list = append(list, g)
		}
		if len(list) == 0 {
			// idle: let virtual time advance
			r.current = nil
			r.gen++
			r.mu.Unlock()
			// wake up at the latest when the virtual-time cap is reached: goroutines outside the
			// scheduler (net/http, scripted servers) can keep timers going for ever
			wait := r.cfg.Sentinel
			if left := r.cfg.MaxVirt - now + time.Nanosecond; left < wait {
				wait = left
			}
			tm := time.NewTimer(wait)
			select {
			case <-r.kick:
				tm.Stop()
				continue
			case <-tm.C:
				r.mu.Lock()
				r.lastTime = time.Since(r.start)
				if r.lastTime > r.cfg.MaxVirt {
					r.end = EndTimeCap
				} else {
					r.end = EndHang
				}
				r.mu.Unlock()
				return
			}
		}
		r.mu.Unlock()
		select {
		case <-r.kick:
		default:
		}
		if r.cfg.SigintStep > 0 && r.step+1 >= r.cfg.SigintStep && !r.SigintFired() {
			r.fireSigint()
			continue // let woken goroutines reach their parks
		}
		sort.Slice(list, func(i, j int) bool { return comparePath(list[i].path, list[j].path) })
		if now != r.prevNow {
			r.lastTimeStep = r.step
			r.prevNow = now
		}
		if r.cfg.MaxStepsNoTime > 0 && r.step-r.lastTimeStep > r.cfg.MaxStepsNoTime {
			r.mu.Lock()
			r.end = EndBusyLoop
			r.mu.Unlock()
			return
		}
		idx := r.pick(list)
		g := list[idx]
		r.mu.Lock()
		if len(list) >= 2 {
			r.multi++
		}
		delete(r.parked, g)
		r.current = g
		r.gen++
		g.gen = r.gen
		r.step++
		r.lastRunner = g
		r.mix(r.step, now, g.ID, g.site)
		r.mu.Unlock()
		g.wake <- struct{}{}
	}
}


// GoWorld starts a scheduled goroutine of the simulated world (network, servers).  It must be
// called from setup (the scheduler goroutine) or from another world/program goroutine.
func (r *Run) GoWorld(site string, fn func()) {
	if g := r.me(); g != nil {
		r.spawn(g, site, fn, false)
		return
	}
	r.mu.Lock()
	if r.worldRoot == nil {
		r.worldRoot = &G{ID: "w", path: []int{-1}}
	}
	w := r.worldRoot
	r.mu.Unlock()
	r.spawn(w, site, fn, false)
}

// IsScheduled reports whether the calling goroutine is a registered (scheduled) goroutine.
func IsScheduled() bool {
	r := cur.Load()
	return r != nil && r.me() != nil
}
