package simrt

import (
	"context"
	"sync"
	"time"
)

// Recv is `<-ch` as a scheduling point.
func Recv[T any](site string, ch <-chan T) T {
	Pre(site)
	v := <-ch
	Post()
	return v
}

// Recv2 is `v, ok := <-ch` as a scheduling point.
func Recv2[T any](site string, ch <-chan T) (T, bool) {
	Pre(site)
	v, ok := <-ch
	Post()
	return v, ok
}

// Zero returns the zero value of the channel's element type (used by rewritten selects).
func Zero[T any](ch <-chan T) (z T) { return }

// ZeroS is Zero for send-only typed channels.
func ZeroS[T any](ch chan<- T) (z T) { return }

// Close is close(ch) as a scheduling point.
func Close[T any](site string, ch chan<- T) {
	Pre(site)
	close(ch)
}

// Cancel calls a context.CancelFunc as a scheduling point.
func Cancel(site string, f context.CancelFunc) {
	Pre(site)
	f()
}

// Sleep is time.Sleep as a scheduling point.
func Sleep(site string, d time.Duration) {
	Pre(site)
	time.Sleep(d)
	Post()
}

// SelectOrder returns the order in which a rewritten select polls its n cases.
func SelectOrder(n int) []int {
	order := make([]int, n)
	for i := range order {
		order[i] = i
	}
	r := cur.Load()
	if r == nil || n < 2 {
		return order
	}
	if r.me() == nil {
		return order
	}
	for i := 0; i < n-1; i++ {
		j := i + r.chooseSched("sel", n-i)
		order[i], order[j] = order[j], order[i]
	}
	return order
}

// SelectReady2 records that a select had at least two ready cases (reach probe).
func SelectReady2() { Probe("select-2-ready") }

// NumCPU replaces runtime.NumCPU: the number of packet-builder workers of the run.
func NumCPU() int {
	r := cur.Load()
	if r == nil {
		return 1
	}
	r.mu.Lock()
	n := r.numCPU
	r.mu.Unlock()
	if n <= 0 {
		return 1
	}
	return n
}

// SetNumCPU sets what NumCPU returns during this run.
func (r *Run) SetNumCPU(n int) {
	r.mu.Lock()
	r.numCPU = n
	r.mu.Unlock()
}

// WaitGroup replaces sync.WaitGroup; Wait is a scheduling point.
type WaitGroup struct {
	wg sync.WaitGroup
}

func (w *WaitGroup) Add(n int) { w.wg.Add(n) }
func (w *WaitGroup) Done()     { w.wg.Done() }
func (w *WaitGroup) Wait() {
	Pre("wg.Wait")
	w.wg.Wait()
	Post()
}

// Mutex replaces sync.Mutex: blocks durably (channel based); Lock is a scheduling point.
type Mutex struct {
	rw RWMutex
}

func (m *Mutex) Lock()   { m.rw.Lock() }
func (m *Mutex) Unlock() { m.rw.Unlock() }
func (m *Mutex) TryLock() bool { return m.rw.TryLock() }

// RWMutex replaces sync.RWMutex.
type RWMutex struct {
	mu      sync.Mutex
	w       bool
	r       int
	waiters []chan struct{}
}

func (m *RWMutex) acquire(write bool) {
	for {
		m.mu.Lock()
		if write && !m.w && m.r == 0 {
			m.w = true
			m.mu.Unlock()
			return
		}
		if !write && !m.w {
			m.r++
			m.mu.Unlock()
			return
		}
		ch := make(chan struct{})
		m.waiters = append(m.waiters, ch)
		m.mu.Unlock()
		Probe("mutex-contended")
		<-ch
		// All waiters are woken by a release.  Who retries first must be the scheduler's decision,
		// not the Go runtime's: park before touching the lock again.
		if r := cur.Load(); r != nil {
			if g := r.me(); g != nil {
				r.park(g, "mu.retry")
			}
		}
	}
}

func (m *RWMutex) release(write bool) {
	m.mu.Lock()
	if write {
		if !m.w {
			m.mu.Unlock()
			panic("sync: unlock of unlocked mutex")
		}
		m.w = false
	} else {
		if m.r <= 0 {
			m.mu.Unlock()
			panic("sync: RUnlock of unlocked RWMutex")
		}
		m.r--
	}
	ws := m.waiters
	m.waiters = nil
	m.mu.Unlock()
	for _, ch := range ws {
		close(ch)
	}
}

func (m *RWMutex) Lock() {
	Pre("mu.Lock")
	m.acquire(true)
	Post()
}
func (m *RWMutex) Unlock() { m.release(true) }
func (m *RWMutex) RLock() {
	Pre("mu.RLock")
	m.acquire(false)
	Post()
}
func (m *RWMutex) RUnlock() { m.release(false) }
func (m *RWMutex) TryLock() bool {
	m.mu.Lock()
	defer m.mu.Unlock()
	if !m.w && m.r == 0 {
		m.w = true
		return true
	}
	return false
}
func (m *RWMutex) RLocker() sync.Locker { return rlocker{m} }

type rlocker struct{ m *RWMutex }

func (l rlocker) Lock()   { l.m.RLock() }
func (l rlocker) Unlock() { l.m.RUnlock() }

// Once replaces sync.Once.
type Once struct {
	mu   Mutex
	done bool
}

func (o *Once) Do(f func()) {
	o.mu.Lock()
	defer o.mu.Unlock()
	if !o.done {
		o.done = true
		f()
	}
}

// Pool replaces sync.Pool: deterministic; per Get the seed decides between re-using the most
// recently freed object and a fresh one (both are legal behaviours of sync.Pool).
type Pool struct {
	New func() interface{}

	mu   sync.Mutex
	run  *Run
	free []interface{}
}

func (p *Pool) sync() *Run {
	r := cur.Load()
	if p.run != r {
		p.run = r
		p.free = nil
	}
	return r
}

func (p *Pool) Get() interface{} {
	p.mu.Lock()
	r := p.sync()
	var x interface{}
	if n := len(p.free); n > 0 {
		reuse := true
		if r != nil && r.me() != nil {
			reuse = r.ChooseWorld("pool", 4) != 0 // mostly reuse: that is the dangerous case
		}
		if reuse {
			x = p.free[n-1]
			p.free = p.free[:n-1]
		}
	}
	p.mu.Unlock()
	if x != nil {
		Probe("pool-reuse")
		return x
	}
	if p.New != nil {
		return p.New()
	}
	return nil
}

func (p *Pool) Put(x interface{}) {
	p.mu.Lock()
	p.sync()
	p.free = append(p.free, x)
	p.mu.Unlock()
}

// SendCtx is `select { case <-done: ; case ch <- v: }` as one scheduling point with a seeded
// choice when both are ready (for harness code, which is not rewritten by simgen).
func SendCtx[T any](site string, done <-chan struct{}, ch chan<- T, v T) (sent bool) {
	Pre(site)
	defer Post()
	for _, i := range SelectOrder(2) {
		if i == 0 {
			select {
			case <-done:
				return false
			default:
			}
		} else {
			select {
			case ch <- v:
				return true
			default:
			}
		}
	}
	select {
	case <-done:
		return false
	case ch <- v:
		return true
	}
}

// RecvCtx is `select { case <-done: ; case v, ok = <-ch: }` with a seeded choice.
func RecvCtx[T any](site string, done <-chan struct{}, ch <-chan T) (v T, ok bool, cancelled bool) {
	Pre(site)
	defer Post()
	for _, i := range SelectOrder(2) {
		if i == 0 {
			select {
			case <-done:
				return v, false, true
			default:
			}
		} else {
			select {
			case v, ok = <-ch:
				return v, ok, false
			default:
			}
		}
	}
	select {
	case <-done:
		return v, false, true
	case v, ok = <-ch:
		return v, ok, false
	}
}
