package simrt

import (
	"math/rand/v2"
)

// Choices is a recorded choice list: one value sequence per stream.
type Choices struct {
	Streams [NumStreams][]uint64 `json:"streams"`
}

// SeedChooser draws from one PCG per stream, all derived from one seed, and records.
type SeedChooser struct {
	rng [NumStreams]*rand.Rand
	Rec Choices
}

func NewSeedChooser(seed uint64) *SeedChooser {
	c := &SeedChooser{}
	for i := range c.rng {
		c.rng[i] = rand.New(rand.NewPCG(seed, 0x9e3779b97f4a7c15*uint64(i+1)))
	}
	return c
}

func (c *SeedChooser) Choose(stream int, label string, n int) int {
	v := c.rng[stream].IntN(n)
	c.Rec.Streams[stream] = append(c.Rec.Streams[stream], uint64(v))
	return v
}

// ReplayChooser replays a recorded (possibly shrunk) choice list positionally; values are
// reduced modulo n and an exhausted stream yields 0, which is by construction the simplest
// option everywhere (first runnable goroutine, source order, no fault, smallest size).
type ReplayChooser struct {
	In  Choices
	pos [NumStreams]int
	Rec Choices // what was actually consumed (normalised)
}

func NewReplayChooser(in Choices) *ReplayChooser { return &ReplayChooser{In: in} }

func (c *ReplayChooser) Choose(stream int, label string, n int) int {
	v := 0
	if c.pos[stream] < len(c.In.Streams[stream]) {
		v = int(c.In.Streams[stream][c.pos[stream]] % uint64(n))
	}
	c.pos[stream]++
	c.Rec.Streams[stream] = append(c.Rec.Streams[stream], uint64(v))
	return v
}
