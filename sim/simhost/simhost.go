// Package simhost is the simulated host network configuration: interfaces, addresses, routes.
package simhost

import (
	"time"
	"errors"
	"net"
	"sync"

	"github.com/vishvananda/netlink"

	"verif/sim/simrt"
)

// Iface is one simulated interface.
type Iface struct {
	net.Interface
	Addrs    []net.Addr
	AddrsErr error
}

// Host is the host configuration of one run.
type Host struct {
	mu        sync.Mutex
	Ifaces    []Iface
	Routes    []netlink.Route
	RoutesErr error
	IfacesErr error
	Calls     []string
	// CallLatency > 0: every query of the host configuration (netlink dump) takes this long - a host
	// with thousands of virtual interfaces, or one that is starved of CPU
	CallLatency time.Duration
}

const key = "simhost"

func Install(r *simrt.Run) *Host {
	h := &Host{}
	r.Attach(key, h)
	return h
}

func host() *Host {
	r := simrt.Current()
	if r == nil {
		return nil
	}
	h, _ := r.Attached(key).(*Host)
	return h
}

// Get returns the host of the current run.
func Get() *Host { return host() }

var errNoHost = errors.New("simhost: no simulated host")

func (h *Host) note(s string) {
	h.mu.Lock()
	h.Calls = append(h.Calls, s)
	h.mu.Unlock()
}

func Interfaces() ([]net.Interface, error) {
	h := host()
	if h == nil {
		return nil, errNoHost
	}
	h.note("Interfaces")
	if h.IfacesErr != nil {
		simrt.Fault("hostcfg-interfaces-err")
		return nil, h.IfacesErr
	}
	var out []net.Interface
	for _, i := range h.Ifaces {
		out = append(out, cloneIf(i.Interface))
	}
	return out, nil
}

func cloneIf(i net.Interface) net.Interface {
	c := i
	if i.HardwareAddr != nil {
		c.HardwareAddr = append(net.HardwareAddr{}, i.HardwareAddr...)
	}
	return c
}

func InterfaceByName(name string) (*net.Interface, error) {
	h := host()
	if h == nil {
		return nil, errNoHost
	}
	h.note("InterfaceByName:" + name)
	for _, i := range h.Ifaces {
		if i.Name == name {
			c := cloneIf(i.Interface)
			return &c, nil
		}
	}
	return nil, &net.OpError{Op: "route", Net: "ip+net", Err: errors.New("no such network interface")}
}

func InterfaceByIndex(idx int) (*net.Interface, error) {
	h := host()
	if h == nil {
		return nil, errNoHost
	}
	h.note("InterfaceByIndex")
	for _, i := range h.Ifaces {
		if i.Index == idx {
			c := cloneIf(i.Interface)
			return &c, nil
		}
	}
	return nil, &net.OpError{Op: "route", Net: "ip+net", Err: errors.New("no such network interface")}
}

// Addrs replaces (*net.Interface).Addrs.
func Addrs(ifi *net.Interface) ([]net.Addr, error) {
	h := host()
	if h == nil {
		return nil, errNoHost
	}
	if ifi == nil {
		return nil, &net.OpError{Op: "route", Net: "ip+net", Err: errors.New("invalid network interface")}
	}
	h.note("Addrs:" + ifi.Name)
	if h.CallLatency > 0 && simrt.IsScheduled() {
		simrt.Fault("hostcfg-slow")
		simrt.Sleep("hostcfg.latency", h.CallLatency)
	}
	for _, i := range h.Ifaces {
		if i.Index == ifi.Index {
			if i.AddrsErr != nil {
				simrt.Fault("hostcfg-addrs-err")
				return nil, i.AddrsErr
			}
			var out []net.Addr
			for _, a := range i.Addrs {
				if n, ok := a.(*net.IPNet); ok {
					out = append(out, &net.IPNet{IP: append(net.IP{}, n.IP...), Mask: append(net.IPMask{}, n.Mask...)})
				} else {
					out = append(out, a)
				}
			}
			return out, nil
		}
	}
	return nil, &net.OpError{Op: "route", Net: "ip+net", Err: errors.New("no such network interface")}
}

// InterfaceAddrs replaces net.InterfaceAddrs.
func InterfaceAddrs() ([]net.Addr, error) {
	h := host()
	if h == nil {
		return nil, errNoHost
	}
	var out []net.Addr
	for _, i := range h.Ifaces {
		out = append(out, i.Addrs...)
	}
	return out, nil
}

// RouteList replaces netlink.RouteList.
func RouteList(link netlink.Link, family int) ([]netlink.Route, error) {
	h := host()
	if h == nil {
		return nil, errNoHost
	}
	h.note("RouteList")
	if h.RoutesErr != nil {
		simrt.Fault("hostcfg-routes-err")
		return nil, h.RoutesErr
	}
	return append([]netlink.Route{}, h.Routes...), nil
}

// HasIface reports whether an interface of that name exists (used by simwire).
func (h *Host) HasIface(name string) bool {
	for _, i := range h.Ifaces {
		if i.Name == name {
			return true
		}
	}
	return false
}
