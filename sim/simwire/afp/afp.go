// Package afp has the API subset of github.com/google/gopacket/afpacket that sx uses; the
// instrumented build of sx imports it instead (import path substitution by simgen).
package afp

import (
	"errors"

	"github.com/google/gopacket"
	"golang.org/x/net/bpf"

	"verif/sim/simwire"
)

type OptSocketType int
type OptInterface string
type OptFrameSize int
type OptBlockSize int
type OptNumBlocks int
type OptTPacketVersion int
type OptBlockTimeout int64
type OptPollTimeout int64
type OptAddVLANHeader bool

const (
	SocketRaw   = OptSocketType(3)
	SocketDgram = OptSocketType(2)
)

type TPacket struct {
	s *simwire.Sock
}

func NewTPacket(opts ...interface{}) (*TPacket, error) {
	iface := ""
	for _, o := range opts {
		if v, ok := o.(OptInterface); ok {
			iface = string(v)
		}
	}
	n := simwire.Get()
	if n == nil {
		return nil, errors.New("afp: no simulated wire")
	}
	s, err := n.Open(iface)
	if err != nil {
		return nil, err
	}
	return &TPacket{s}, nil
}

func (h *TPacket) SetBPF(filter []bpf.RawInstruction) error { return h.s.SetBPF(filter) }
func (h *TPacket) Close()                                    { h.s.Close() }
func (h *TPacket) ZeroCopyReadPacketData() ([]byte, gopacket.CaptureInfo, error) {
	return h.s.Read()
}
func (h *TPacket) ReadPacketData() ([]byte, gopacket.CaptureInfo, error) { return h.s.Read() }
func (h *TPacket) WritePacketData(pkt []byte) error                      { return h.s.Write(pkt) }
