// Package simwire is the simulated AF_PACKET wire: sockets bound to interfaces of the
// simulated host, a wire log of every frame written by sx, and a discrete-event network that
// delivers frames (replies, unsolicited traffic) through the socket's real BPF program, which
// is executed by golang.org/x/net/bpf.VM.
package simwire

import (
	"bytes"
	"container/heap"
	"errors"
	"sync"
	"syscall"
	"time"

	"github.com/google/gopacket"
	"golang.org/x/net/bpf"

	"verif/sim/simhost"
	"verif/sim/simrt"
)

// Frame is one frame written by sx.
type Frame struct {
	Idx     int
	Sock    int
	Iface   string
	Step    int           // scheduling step at which the write was entered
	T       time.Duration // virtual time at which the write was entered
	RetStep int           // step at which the write returned (0 = never)
	RetT    time.Duration
	Data    []byte
	Altered bool  // the caller's buffer changed while the write was in progress
	Err     error // error returned to the caller
}

// Delivery is one frame offered to a socket by the network.
type Delivery struct {
	Sock     int
	T        time.Duration
	Step     int
	Data     []byte // as offered (before truncation)
	Accepted int    // BPF verdict: bytes accepted (0 = dropped)
	Tag      string // scenario label
}

type event struct {
	t     time.Duration
	seq   int
	iface string
	data  []byte
	tag   string
	fn    func()
}

type evHeap []*event

func (h evHeap) Len() int            { return len(h) }
func (h evHeap) Less(i, j int) bool  { return h[i].t < h[j].t || (h[i].t == h[j].t && h[i].seq < h[j].seq) }
func (h evHeap) Swap(i, j int)       { h[i], h[j] = h[j], h[i] }
func (h *evHeap) Push(x interface{}) { *h = append(*h, x.(*event)) }
func (h *evHeap) Pop() interface{} {
	o := *h
	x := o[len(o)-1]
	*h = o[:len(o)-1]
	return x
}

// Sock is one simulated packet socket.
type Sock struct {
	ID      int
	Iface   string
	net     *Net
	vm      *bpf.VM
	Filter  []bpf.RawInstruction
	OpenT   time.Duration
	CloseT  time.Duration
	queue   [][]byte
	origLen []int
	notify  chan struct{}
	closed  bool
	ring     []byte  // the one slot of the zero-copy ring (see Read)
	readErrs []error // scripted read outcomes, consumed before the queue
	Reads   int
}

// Net is the wire of one run.
type Net struct {
	mu         sync.Mutex
	run        *simrt.Run
	Socks      []*Sock
	Wire       []*Frame
	Deliveries []Delivery
	events     evHeap
	seq        int
	wake       chan struct{}

	// OnWrite is called (in the writing goroutine, after the frame was recorded and any stall
	// has passed) for every successfully written frame; scenarios schedule replies from it.
	OnWrite func(n *Net, f *Frame)
	// OnOpen is called when a socket has been opened and its filter attached.
	OnFilter func(n *Net, s *Sock)

	// fault plan
	OpenErr          error
	StallEvery       int
	StallFor         time.Duration
	WriteErrEvery    int
	WriteErr         error
	CloseWakesReader bool
	ReadErrPlan      func(s *Sock, nread int) error // optional: error for the n-th read call
	nwrites          int
}

const key = "simwire"

// Install creates the wire of the run and starts its network goroutine.
func Install(r *simrt.Run) *Net {
	n := &Net{run: r, wake: make(chan struct{}, 1)}
	r.Attach(key, n)
	r.GoWorld("simwire.net", n.loop)
	return n
}

// Get returns the wire of the current run.
func Get() *Net {
	r := simrt.Current()
	if r == nil {
		return nil
	}
	n, _ := r.Attached(key).(*Net)
	return n
}

func (n *Net) kick() {
	select {
	case n.wake <- struct{}{}:
	default:
	}
}

// Inject schedules a frame to arrive on every socket bound to iface after delay.
func (n *Net) Inject(delay time.Duration, iface string, data []byte, tag string) {
	n.mu.Lock()
	n.seq++
	heap.Push(&n.events, &event{t: n.run.Now() + delay, seq: n.seq, iface: iface, data: append([]byte{}, data...), tag: tag})
	n.mu.Unlock()
	n.kick()
}

// At schedules fn to run in the network goroutine after delay.
func (n *Net) At(delay time.Duration, fn func()) {
	n.mu.Lock()
	n.seq++
	heap.Push(&n.events, &event{t: n.run.Now() + delay, seq: n.seq, fn: fn})
	n.mu.Unlock()
	n.kick()
}

func (n *Net) loop() {
	for {
		n.mu.Lock()
		if len(n.events) == 0 {
			n.mu.Unlock()
			simrt.Pre("net.idle")
			<-n.wake
			simrt.Post()
			continue
		}
		ev := n.events[0]
		d := ev.t - n.run.Now()
		if d > 0 {
			n.mu.Unlock()
			simrt.Pre("net.wait")
			tm := time.NewTimer(d)
			select {
			case <-n.wake:
				tm.Stop()
			case <-tm.C:
			}
			simrt.Post()
			continue
		}
		heap.Pop(&n.events)
		n.mu.Unlock()
		simrt.Pre("net.deliver")
		if ev.fn != nil {
			ev.fn()
		} else {
			n.deliver(ev)
		}
	}
}

func (n *Net) deliver(ev *event) {
	n.mu.Lock()
	defer n.mu.Unlock()
	for _, s := range n.Socks {
		if s.closed || s.Iface != ev.iface {
			continue
		}
		acc := len(ev.data)
		if s.vm != nil {
			v, err := s.vm.Run(ev.data)
			if err != nil {
				v = 0
			}
			if v < acc {
				acc = v
			}
		}
		n.Deliveries = append(n.Deliveries, Delivery{Sock: s.ID, T: n.run.Now(), Step: n.run.Step(), Data: ev.data, Accepted: acc, Tag: ev.tag})
		if acc <= 0 {
			continue
		}
		s.queue = append(s.queue, append([]byte{}, ev.data[:acc]...))
		s.origLen = append(s.origLen, len(ev.data))
		select {
		case s.notify <- struct{}{}:
		default:
		}
	}
	simrt.Event("net.deliver:" + ev.tag)
}

// Open creates a socket bound to iface.
func (n *Net) Open(iface string) (*Sock, error) {
	if n.OpenErr != nil {
		simrt.Fault("sock-open-fail")
		return nil, n.OpenErr
	}
	if h := simhost.Get(); h != nil && !h.HasIface(iface) {
		return nil, errors.New("bindToInterface: InterfaceByName: route ip+net: no such network interface")
	}
	n.mu.Lock()
	defer n.mu.Unlock()
	s := &Sock{ID: len(n.Socks), Iface: iface, net: n, notify: make(chan struct{}, 1), OpenT: n.run.Now()}
	n.Socks = append(n.Socks, s)
	simrt.Event("sock.open:" + iface)
	return s, nil
}

// SetBPF attaches the (real, libpcap-compiled) filter program.
func (s *Sock) SetBPF(raw []bpf.RawInstruction) error {
	ins, ok := bpf.Disassemble(raw)
	if !ok {
		// keep going: the VM refuses instructions it does not know
	}
	vm, err := bpf.NewVM(ins)
	if err != nil {
		return err
	}
	s.net.mu.Lock()
	s.vm = vm
	s.Filter = append([]bpf.RawInstruction{}, raw...)
	s.net.mu.Unlock()
	if s.net.OnFilter != nil {
		s.net.OnFilter(s.net, s)
	}
	return nil
}

// Close closes the socket.
func (s *Sock) Close() {
	n := s.net
	n.mu.Lock()
	s.closed = true
	s.CloseT = n.run.Now()
	wake := n.CloseWakesReader
	n.mu.Unlock()
	simrt.Event("sock.close")
	if wake {
		select {
		case s.notify <- struct{}{}:
		default:
		}
	}
}

// ScriptReadErrors makes the next reads return these errors (in order) before any frame.
func (s *Sock) ScriptReadErrors(errs ...error) {
	s.net.mu.Lock()
	s.readErrs = append(s.readErrs, errs...)
	s.net.mu.Unlock()
	select {
	case s.notify <- struct{}{}:
	default:
	}
}

// Read blocks until a frame (or scripted error) is available.
func (s *Sock) Read() ([]byte, gopacket.CaptureInfo, error) {
	n := s.net
	simrt.Pre("afp.read")
	n.mu.Lock()
	s.Reads++
	nread := s.Reads
	var planned error
	if n.ReadErrPlan != nil {
		planned = n.ReadErrPlan(s, nread)
	}
	n.mu.Unlock()
	if planned != nil {
		simrt.Fault("rx-errno")
		simrt.Post()
		return nil, gopacket.CaptureInfo{}, planned
	}
	for {
		n.mu.Lock()
		if len(s.readErrs) > 0 {
			err := s.readErrs[0]
			s.readErrs = s.readErrs[1:]
			n.mu.Unlock()
			simrt.Fault("rx-errno")
			simrt.Post()
			return nil, gopacket.CaptureInfo{}, err
		}
		if len(s.queue) > 0 {
			d := s.queue[0]
			ol := s.origLen[0]
			s.queue = s.queue[1:]
			s.origLen = s.origLen[1:]
			// zero-copy semantics of the AF_PACKET ring: the returned slice is valid only until the
			// next read.  The slot handed out by the previous read is overwritten now (same memory
			// when the frame fits, and poisoned beyond it), so whoever kept a reference to an
			// earlier frame sees it change.
			if cap(s.ring) < len(d) {
				s.ring = make([]byte, len(d), 2048+len(d))
			}
			full := s.ring[:cap(s.ring)]
			for i := range full {
				full[i] = 0xa5
			}
			s.ring = s.ring[:len(d)]
			copy(s.ring, d)
			out := s.ring
			n.mu.Unlock()
			simrt.Post()
			return out, gopacket.CaptureInfo{Timestamp: time.Now(), CaptureLength: len(out), Length: ol}, nil
		}
		if s.closed {
			n.mu.Unlock()
			simrt.Post()
			return nil, gopacket.CaptureInfo{}, syscall.EBADF
		}
		n.mu.Unlock()
		<-s.notify
	}
}

// Write puts a frame on the wire.
func (s *Sock) Write(pkt []byte) error {
	n := s.net
	simrt.Pre("afp.write")
	snap := append([]byte{}, pkt...)
	n.mu.Lock()
	if s.closed {
		n.mu.Unlock()
		return syscall.EBADF
	}
	n.nwrites++
	k := n.nwrites
	f := &Frame{Idx: len(n.Wire), Sock: s.ID, Iface: s.Iface, Step: n.run.Step(), T: n.run.Now(), Data: snap}
	n.Wire = append(n.Wire, f)
	stall := n.StallEvery > 0 && k%n.StallEvery == 0
	stallFor := n.StallFor
	var werr error
	if n.WriteErrEvery > 0 && k%n.WriteErrEvery == 0 {
		werr = n.WriteErr
	}
	n.mu.Unlock()
	simrt.Event("afp.write")
	if stall {
		simrt.Fault("nic-stall")
		simrt.Sleep("afp.stall", stallFor)
	}
	if !bytes.Equal(snap, pkt) {
		f.Altered = true
	}
	if werr != nil {
		simrt.Fault("nic-error")
		f.Err = werr
	} else if n.OnWrite != nil {
		n.OnWrite(n, f)
	}
	n.mu.Lock()
	f.RetStep = n.run.Step()
	f.RetT = n.run.Now()
	n.mu.Unlock()
	return werr
}

// Snapshot returns copies of the logs.
func (n *Net) Snapshot() (wire []*Frame, dels []Delivery) {
	n.mu.Lock()
	defer n.mu.Unlock()
	return append([]*Frame{}, n.Wire...), append([]Delivery{}, n.Deliveries...)
}
