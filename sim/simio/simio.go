// Package simio is the simulated stdin / stdout / stderr / file system of a run, and the
// recording replacement of zap.NewProduction (same encoder and level, no sampler).
package simio

import (
	"errors"
	"io"
	"io/fs"
	"os"
	"sync"
	"syscall"
	"time"

	"go.uber.org/zap"
	"go.uber.org/zap/zapcore"

	"verif/sim/simrt"
)

// WriteRec is one Write call on stdout.
type WriteRec struct {
	Step int
	T    time.Duration
	Data []byte
	Part int // 1: first part of a write that the simulated slow consumer took in two parts
}

// ErrRec is one zap error-level entry.
type ErrRec struct {
	Step  int
	T     time.Duration
	Label string
	Err   string
}

// FileSpec is an in-memory file with optional read faults.
type FileSpec struct {
	Data      []byte
	ErrAt     int   // >=0: Read fails with EIO once this offset is reached (-1 = never)
	ChunkSize int   // >0: reads return at most this many bytes
	OpenErr   error // non-nil: Open fails
	OpenOnly  int   // >0: only the first n opens succeed, later ones fail with ENOENT (the file was removed meanwhile)
	nOpens    int
	StallAt   int           // >0: the read that reaches this offset first blocks for StallFor (a pipe whose writer pauses)
	StallFor  time.Duration
	stalled   bool
}

// World is the I/O world of one run.
type World struct {
	mu         sync.Mutex
	Files      map[string]*FileSpec
	Stdin      *FileSpec
	StdinTTY   bool
	stdinPos   int
	Opens      []string
	Out        []WriteRec
	Errs       []ErrRec
	Stderr     []byte
	StallEvery int           // >0: every n-th stdout write stalls
	StallFor   time.Duration // duration of a stall
	ErrEvery   int           // >0: every n-th stdout write fails with EAGAIN (nothing written)
	FailedOut  []WriteRec    // the writes that failed
	ErrStallEvery int           // >0: every n-th error-level log entry takes ErrStallFor (a slow log sink)
	ErrStallFor   time.Duration
	nOut       int
}

const key = "simio"

// Install creates the I/O world of the run.
func Install(r *simrt.Run) *World {
	w := &World{Files: map[string]*FileSpec{}}
	r.Attach(key, w)
	return w
}

func world() *World {
	r := simrt.Current()
	if r == nil {
		return nil
	}
	w, _ := r.Attached(key).(*World)
	return w
}

// OutBytes is the concatenation of everything written to stdout.
func (w *World) OutBytes() []byte {
	w.mu.Lock()
	defer w.mu.Unlock()
	var b []byte
	for _, r := range w.Out {
		b = append(b, r.Data...)
	}
	return b
}

func (w *World) Snapshot() (out []WriteRec, errs []ErrRec) {
	w.mu.Lock()
	defer w.mu.Unlock()
	return append([]WriteRec{}, w.Out...), append([]ErrRec{}, w.Errs...)
}

type stdoutT struct{}
type stderrT struct{}

// Stdout replaces os.Stdout.
var Stdout io.Writer = stdoutT{}

// Stderr replaces os.Stderr.
var Stderr io.Writer = stderrT{}

func (stdoutT) Write(p []byte) (int, error) {
	w := world()
	if w == nil {
		return len(p), nil
	}
	r := simrt.Current()
	w.mu.Lock()
	w.nOut++
	stall := w.StallEvery > 0 && w.nOut%w.StallEvery == 0
	d := w.StallFor
	w.mu.Unlock()
	if stall && len(p) > 1 {
		// a slow consumer: the first half of the bytes is taken at once, the rest after the stall;
		// a process that exits in between leaves a torn record behind
		half := len(p) / 2
		w.mu.Lock()
		w.Out = append(w.Out, WriteRec{Step: r.Step(), T: r.Now(), Data: append([]byte{}, p[:half]...), Part: 1})
		w.mu.Unlock()
		simrt.Fault("stdout-stall")
		simrt.Sleep("stdout.stall", d)
		w.mu.Lock()
		w.Out = append(w.Out, WriteRec{Step: r.Step(), T: r.Now(), Data: append([]byte{}, p[half:]...)})
		w.mu.Unlock()
		simrt.Event("stdout.write")
		return len(p), nil
	}
	if stall {
		simrt.Fault("stdout-stall")
		simrt.Sleep("stdout.stall", d)
	}
	rec := WriteRec{Step: r.Step(), T: r.Now(), Data: append([]byte{}, p...)}
	w.mu.Lock()
	if w.ErrEvery > 0 && w.nOut%w.ErrEvery == 0 {
		w.FailedOut = append(w.FailedOut, rec)
		w.mu.Unlock()
		simrt.Fault("stdout-error")
		return 0, syscall.EAGAIN
	}
	w.Out = append(w.Out, rec)
	w.mu.Unlock()
	simrt.Event("stdout.write")
	return len(p), nil
}

func (stderrT) Write(p []byte) (int, error) {
	w := world()
	if w == nil {
		return len(p), nil
	}
	w.mu.Lock()
	w.Stderr = append(w.Stderr, p...)
	w.mu.Unlock()
	return len(p), nil
}

// File is an open simulated file.
type File struct {
	w    *World
	spec *FileSpec
	pos  *int
	name string
	closed bool
}

func (f *File) Read(p []byte) (int, error) {
	if f.closed {
		return 0, os.ErrClosed
	}
	f.w.mu.Lock()
	stall := f.spec.StallAt > 0 && !f.spec.stalled && *f.pos >= f.spec.StallAt
	if stall {
		f.spec.stalled = true
	}
	d := f.spec.StallFor
	f.w.mu.Unlock()
	if stall {
		simrt.Fault("file-read-stall")
		simrt.Sleep("file.read.stall", d)
	}
	f.w.mu.Lock()
	defer f.w.mu.Unlock()
	s := f.spec
	if s.ErrAt >= 0 && *f.pos >= s.ErrAt {
		simrt.Fault("file-read-err")
		return 0, &fs.PathError{Op: "read", Path: f.name, Err: syscall.EIO}
	}
	if *f.pos >= len(s.Data) {
		return 0, io.EOF
	}
	n := len(p)
	if s.ChunkSize > 0 && n > s.ChunkSize {
		n = s.ChunkSize
		simrt.Fault("file-short-read")
	}
	if rem := len(s.Data) - *f.pos; n > rem {
		n = rem
	}
	if s.ErrAt >= 0 && *f.pos+n > s.ErrAt {
		n = s.ErrAt - *f.pos
	}
	if s.StallAt > 0 && !s.stalled && *f.pos < s.StallAt && *f.pos+n > s.StallAt {
		n = s.StallAt - *f.pos
	}
	copy(p, s.Data[*f.pos:*f.pos+n])
	*f.pos += n
	return n, nil
}

func (f *File) Close() error {
	f.closed = true
	return nil
}

// Seek: regular files are seekable like the *os.File that os.Open returns (code may assert
// io.Seeker on what it opened).
func (f *File) Seek(offset int64, whence int) (int64, error) {
	if f.closed {
		return 0, os.ErrClosed
	}
	f.w.mu.Lock()
	defer f.w.mu.Unlock()
	var base int64
	switch whence {
	case io.SeekStart:
	case io.SeekCurrent:
		base = int64(*f.pos)
	case io.SeekEnd:
		base = int64(len(f.spec.Data))
	default:
		return 0, &fs.PathError{Op: "seek", Path: f.name, Err: syscall.EINVAL}
	}
	if base+offset < 0 {
		return 0, &fs.PathError{Op: "seek", Path: f.name, Err: syscall.EINVAL}
	}
	*f.pos = int(base + offset)
	return base + offset, nil
}

// Name returns the name the file was opened with.
func (f *File) Name() string { return f.name }

type fileInfo struct {
	name string
	mode os.FileMode
	size int64
}

func (i fileInfo) Name() string       { return i.name }
func (i fileInfo) Size() int64        { return i.size }
func (i fileInfo) Mode() os.FileMode  { return i.mode }
func (i fileInfo) ModTime() time.Time { return time.Time{} }
func (i fileInfo) IsDir() bool        { return false }
func (i fileInfo) Sys() interface{}   { return nil }

func (f *File) Stat() (os.FileInfo, error) {
	return fileInfo{name: f.name, mode: 0o644, size: int64(len(f.spec.Data))}, nil
}

// Open replaces os.Open.
func Open(name string) (*File, error) {
	w := world()
	if w == nil {
		return nil, &fs.PathError{Op: "open", Path: name, Err: syscall.ENOENT}
	}
	w.mu.Lock()
	defer w.mu.Unlock()
	w.Opens = append(w.Opens, name)
	s, ok := w.Files[name]
	if !ok {
		return nil, &fs.PathError{Op: "open", Path: name, Err: syscall.ENOENT}
	}
	if s.OpenErr != nil {
		return nil, &fs.PathError{Op: "open", Path: name, Err: s.OpenErr}
	}
	s.nOpens++
	if s.OpenOnly > 0 && s.nOpens > s.OpenOnly {
		simrt.Fault("file-vanished")
		return nil, &fs.PathError{Op: "open", Path: name, Err: syscall.ENOENT}
	}
	pos := 0
	return &File{w: w, spec: s, pos: &pos, name: name}, nil
}

type stdinT struct{}

// Stdin replaces os.Stdin: one shared read position, like a real descriptor.
var Stdin = stdinT{}

func (stdinT) Read(p []byte) (int, error) {
	w := world()
	if w == nil || w.Stdin == nil {
		return 0, io.EOF
	}
	f := &File{w: w, spec: w.Stdin, pos: &w.stdinPos, name: "/dev/stdin"}
	return f.Read(p)
}

func (stdinT) Close() error { return nil }

func (stdinT) Stat() (os.FileInfo, error) {
	w := world()
	if w == nil {
		return nil, errors.New("no world")
	}
	mode := os.ModeNamedPipe | 0o600
	if w.StdinTTY || w.Stdin == nil {
		mode = os.ModeDevice | os.ModeCharDevice | 0o620
	}
	return fileInfo{name: "stdin", mode: mode}, nil
}

// recording zap core: same JSON encoder and level as zap.NewProduction, without the sampler,
// one record per Logger call.
type recCore struct {
	zapcore.Core
	enc zapcore.Encoder
}

func (c *recCore) With(fields []zapcore.Field) zapcore.Core {
	return &recCore{Core: c.Core.With(fields), enc: c.enc}
}

func (c *recCore) Check(ent zapcore.Entry, ce *zapcore.CheckedEntry) *zapcore.CheckedEntry {
	if c.Enabled(ent.Level) {
		return ce.AddCore(ent, c)
	}
	return ce
}

func (c *recCore) Write(ent zapcore.Entry, fields []zapcore.Field) error {
	if w := world(); w != nil && ent.Level >= zapcore.ErrorLevel {
		rec := ErrRec{Label: ent.Message}
		if r := simrt.Current(); r != nil {
			rec.Step, rec.T = r.Step(), r.Now()
		}
		for _, f := range fields {
			if f.Type == zapcore.ErrorType {
				if e, ok := f.Interface.(error); ok && e != nil {
					rec.Err = e.Error()
				}
			}
		}
		w.mu.Lock()
		w.Errs = append(w.Errs, rec)
		stall := w.ErrStallEvery > 0 && len(w.Errs)%w.ErrStallEvery == 0 && simrt.IsScheduled()
		d := w.ErrStallFor
		w.mu.Unlock()
		simrt.Event("stderr.error")
		if stall {
			simrt.Fault("stderr-stall")
			simrt.Sleep("stderr.stall", d)
		}
	}
	return c.Core.Write(ent, fields)
}

// NewZap replaces zap.NewProduction.
func NewZap(options ...zap.Option) (*zap.Logger, error) {
	enc := zapcore.NewJSONEncoder(zap.NewProductionEncoderConfig())
	core := zapcore.NewCore(enc, zapcore.AddSync(Stderr), zap.InfoLevel)
	opts := append([]zap.Option{zap.ErrorOutput(zapcore.AddSync(Stderr)), zap.AddCaller(), zap.AddStacktrace(zap.ErrorLevel)}, options...)
	return zap.New(&recCore{Core: core, enc: enc}, opts...), nil
}
