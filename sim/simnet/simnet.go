// Package simnet is the simulated TCP network of the application scans (socks, docker,
// elastic): an in-memory dialer and connections whose deadlines run on the virtual clock, and
// a table of scripted servers.
package simnet

import (
	"context"
	"errors"
	"io"
	"net"
	"net/http"
	"os"
	"sync"
	"syscall"
	"time"

	"verif/sim/simrt"
)

// Server modes.
const (
	Blackhole = iota // SYN is never answered
	Refuse           // RST on connect
	Accept           // connection established, Handler runs the server side
)

// Server is the behaviour of one listening (or not listening) endpoint.
type Server struct {
	Mode        int
	ConnectTime time.Duration              // time until the connect outcome is known
	Handler     func(c *TCPConn, rec *ConnRec) // server side of an accepted connection
}

// DialRec is one dial attempt of sx.
type DialRec struct {
	Addr   string
	Step   int
	T      time.Duration
	EndT   time.Duration
	Err    string
	ConnID int
}

// ConnRec records what a server saw on one connection.
type ConnRec struct {
	ID       int
	Addr     string
	AcceptT  time.Duration
	Received []byte
	Events   []string
	mu       sync.Mutex
}

func (c *ConnRec) Note(ev string) {
	c.mu.Lock()
	c.Events = append(c.Events, ev)
	c.mu.Unlock()
}

func (c *ConnRec) AddReceived(b []byte) {
	c.mu.Lock()
	c.Received = append(c.Received, b...)
	c.mu.Unlock()
}

// Net is the TCP world of one run.
type Net struct {
	mu      sync.Mutex
	run     *simrt.Run
	Servers map[string]*Server
	// Lookup, if set, decides the server for an address not in Servers.
	Lookup func(addr string) *Server
	Dials  []*DialRec
	Conns  []*ConnRec
	BufCap int
	// MaxOpen, if > 0, is the file-descriptor budget of the scanner process for sockets: a dial made
	// while that many client connections are open fails with EMFILE (fault "fd-limit").
	MaxOpen int
	open    int
	MaxSeen int // high-water mark of simultaneously open client connections
	dead    bool
	all     []*TCPConn
}

const key = "simnet"

func Install(r *simrt.Run) *Net {
	n := &Net{run: r, Servers: map[string]*Server{}, BufCap: 64 << 10}
	r.Attach(key, n)
	r.OnEnd(n.shutdown)
	return n
}

// shutdown aborts every connection at the end of the run, so that goroutines the scheduler does
// not control (HTTP clients, scripted servers) terminate instead of keeping the bubble alive.
func (n *Net) shutdown() {
	n.mu.Lock()
	n.dead = true
	conns := append([]*TCPConn{}, n.all...)
	n.mu.Unlock()
	for _, c := range conns {
		c.Reset()
	}
}

func Get() *Net {
	r := simrt.Current()
	if r == nil {
		return nil
	}
	n, _ := r.Attached(key).(*Net)
	return n
}

func (n *Net) Snapshot() ([]*DialRec, []*ConnRec) {
	n.mu.Lock()
	defer n.mu.Unlock()
	return append([]*DialRec{}, n.Dials...), append([]*ConnRec{}, n.Conns...)
}

type addr string

func (a addr) Network() string { return "tcp" }
func (a addr) String() string  { return string(a) }

// half is one direction of a connection.  Every segment, the FIN and a reset carry the virtual
// instant at which they become visible to the reader.  For writers under the scheduler that is
// "now".  Writers the scheduler does not control (net/http, crypto/tls, byte-scripted servers)
// are serialised by the virtual clock instead: each of their segments becomes visible 1 ns after
// the previous one and never at the instant it was written, so what a Read returns depends only
// on virtual time, never on how the Go scheduler interleaves a racing writer and reader.
type half struct {
	mu      sync.Mutex
	segs    []segment
	size    int
	lastAt  time.Time
	gone    bool // the reader closed: further writes are accepted and discarded (first write after a FIN succeeds)
	eof     bool // writer closed its side
	eofAt   time.Time
	reset   bool
	resetAt time.Time
	notify  chan struct{}
	cap     int
}

type segment struct {
	data []byte
	at   time.Time
}

func newHalf(cap int) *half { return &half{notify: make(chan struct{}, 1), cap: cap} }

// stamp returns the instant at which something written now becomes visible (h.mu held).
func (h *half) stamp() time.Time {
	at := time.Now()
	if at.Before(h.lastAt) {
		at = h.lastAt
	}
	if !simrt.IsScheduled() {
		at = at.Add(time.Nanosecond)
	}
	h.lastAt = at
	return at
}

func (h *half) kick() {
	select {
	case h.notify <- struct{}{}:
	default:
	}
}

type timeoutErr struct{}

func (timeoutErr) Error() string   { return "i/o timeout" }
func (timeoutErr) Timeout() bool   { return true }
func (timeoutErr) Temporary() bool { return true }
func (timeoutErr) Is(err error) bool {
	return err == os.ErrDeadlineExceeded || err == context.DeadlineExceeded
}

// TCPConn replaces net.TCPConn.
type TCPConn struct {
	rd, wr       *half
	local, remote addr
	mu           sync.Mutex
	closed       bool
	closedCh     chan struct{}
	rdl, wdl     time.Time
	Linger       int
	lingerSet    bool
	onClose      func() // client side: gives the descriptor back
	// sched: operations on this connection are scheduling points.  False for connections dialled by
	// a goroutine outside the scheduler (the HTTP transport): such a connection is used below
	// net/http and crypto/tls, which call Read / Write / Close while holding their own sync.Mutex;
	// parking there would block another goroutine on that mutex non-durably and freeze the bubble.
	sched bool
}

var _ net.Conn = (*TCPConn)(nil)

func pair(capacity int, client, server string) (*TCPConn, *TCPConn) {
	a, b := newHalf(capacity), newHalf(capacity)
	c := &TCPConn{rd: a, wr: b, local: addr(client), remote: addr(server), closedCh: make(chan struct{})}
	s := &TCPConn{rd: b, wr: a, local: addr(server), remote: addr(client), closedCh: make(chan struct{})}
	return c, s
}

func opErr(op string, c *TCPConn, err error) error {
	return &net.OpError{Op: op, Net: "tcp", Source: c.local, Addr: c.remote, Err: err}
}

func (c *TCPConn) Read(p []byte) (int, error) {
	if c.sched {
		simrt.Pre("tcp.read")
		defer simrt.Post()
	}
	if len(p) == 0 {
		return 0, nil
	}
	for {
		c.mu.Lock()
		closed := c.closed
		dl := c.rdl
		c.mu.Unlock()
		if closed {
			return 0, opErr("read", c, net.ErrClosed)
		}
		h := c.rd
		h.mu.Lock()
		now := time.Now()
		if h.reset && !now.Before(h.resetAt) {
			h.mu.Unlock()
			return 0, opErr("read", c, os.NewSyscallError("read", syscall.ECONNRESET))
		}
		if len(h.segs) > 0 && !now.Before(h.segs[0].at) {
			n := 0
			for n < len(p) && len(h.segs) > 0 && !now.Before(h.segs[0].at) {
				k := copy(p[n:], h.segs[0].data)
				n += k
				h.size -= k
				if k == len(h.segs[0].data) {
					h.segs = h.segs[1:]
				} else {
					h.segs[0].data = h.segs[0].data[k:]
				}
			}
			h.mu.Unlock()
			h.kick() // wake a blocked writer
			return n, nil
		}
		if len(h.segs) == 0 && h.eof && !now.Before(h.eofAt) {
			h.mu.Unlock()
			return 0, io.EOF
		}
		// something is on its way: wake up when it becomes visible
		var next time.Time
		switch {
		case len(h.segs) > 0:
			next = h.segs[0].at
		case h.eof:
			next = h.eofAt
		}
		if h.reset && (next.IsZero() || h.resetAt.Before(next)) {
			next = h.resetAt
		}
		h.mu.Unlock()
		var arrive <-chan time.Time
		var arriveTm *time.Timer
		if !next.IsZero() {
			arriveTm = time.NewTimer(next.Sub(now))
			arrive = arriveTm.C
		}
		var timer <-chan time.Time
		var tm *time.Timer
		if !dl.IsZero() {
			d := time.Until(dl)
			if d <= 0 {
				return 0, opErr("read", c, timeoutErr{})
			}
			tm = time.NewTimer(d)
			timer = tm.C
		}
		select {
		case <-h.notify:
		case <-arrive:
		case <-timer:
		case <-c.closedCh:
		}
		if arriveTm != nil {
			arriveTm.Stop()
		}
		if tm != nil {
			tm.Stop()
		}
	}
}

func (c *TCPConn) Write(p []byte) (int, error) {
	if c.sched {
		simrt.Pre("tcp.write")
		defer simrt.Post()
	}
	total := 0
	for len(p) > 0 {
		c.mu.Lock()
		closed := c.closed
		dl := c.wdl
		c.mu.Unlock()
		if closed {
			return total, opErr("write", c, net.ErrClosed)
		}
		h := c.wr
		h.mu.Lock()
		if (h.reset && !time.Now().Before(h.resetAt)) || c.rd.isReset() {
			h.mu.Unlock()
			return total, opErr("write", c, os.NewSyscallError("write", syscall.ECONNRESET))
		}
		if h.gone {
			h.mu.Unlock()
			return total + len(p), nil
		}
		room := h.cap - h.size
		if room > 0 {
			n := len(p)
			if n > room {
				n = room
			}
			h.segs = append(h.segs, segment{data: append([]byte{}, p[:n]...), at: h.stamp()})
			h.size += n
			p = p[n:]
			total += n
			h.mu.Unlock()
			h.kick()
			continue
		}
		h.mu.Unlock()
		var timer <-chan time.Time
		var tm *time.Timer
		if !dl.IsZero() {
			d := time.Until(dl)
			if d <= 0 {
				return total, opErr("write", c, timeoutErr{})
			}
			tm = time.NewTimer(d)
			timer = tm.C
		}
		select {
		case <-h.notify:
		case <-timer:
		case <-c.closedCh:
		}
		if tm != nil {
			tm.Stop()
		}
	}
	return total, nil
}

func (h *half) isReset() bool {
	h.mu.Lock()
	defer h.mu.Unlock()
	return h.reset && !time.Now().Before(h.resetAt)
}

// Close closes the connection: the peer reads EOF after draining.
func (c *TCPConn) Close() error {
	c.mu.Lock()
	if c.closed {
		c.mu.Unlock()
		return opErr("close", c, net.ErrClosed)
	}
	c.closed = true
	close(c.closedCh)
	oc := c.onClose
	c.onClose = nil
	c.mu.Unlock()
	if oc != nil {
		oc()
	}
	c.wr.mu.Lock()
	if !c.wr.eof {
		c.wr.eof = true
		c.wr.eofAt = c.wr.stamp()
	}
	c.wr.mu.Unlock()
	c.wr.kick()
	// the peer's later writes go nowhere
	c.rd.mu.Lock()
	c.rd.gone = true
	c.rd.mu.Unlock()
	c.rd.kick()
	return nil
}

// Reset aborts the connection: the peer's reads and writes fail with ECONNRESET.
func (c *TCPConn) Reset() {
	c.wr.mu.Lock()
	if !c.wr.reset {
		c.wr.reset = true
		c.wr.resetAt = c.wr.stamp()
	}
	c.wr.mu.Unlock()
	c.wr.kick()
	c.mu.Lock()
	if !c.closed {
		c.closed = true
		close(c.closedCh)
	}
	c.mu.Unlock()
}

// IsClosed reports whether this end has been closed.
func (c *TCPConn) IsClosed() bool {
	c.mu.Lock()
	defer c.mu.Unlock()
	return c.closed
}

// PeerClosed reports whether the other end has closed (observed by a server script).
func (c *TCPConn) PeerClosed() bool {
	c.rd.mu.Lock()
	defer c.rd.mu.Unlock()
	return c.rd.eof && !time.Now().Before(c.rd.eofAt)
}

func (c *TCPConn) CloseWrite() error {
	c.wr.mu.Lock()
	if !c.wr.eof {
		c.wr.eof = true
		c.wr.eofAt = c.wr.stamp()
	}
	c.wr.mu.Unlock()
	c.wr.kick()
	return nil
}
func (c *TCPConn) CloseRead() error     { return nil }
func (c *TCPConn) LocalAddr() net.Addr  { return c.local }
func (c *TCPConn) RemoteAddr() net.Addr { return c.remote }
func (c *TCPConn) SetDeadline(t time.Time) error {
	c.SetReadDeadline(t)
	return c.SetWriteDeadline(t)
}
func (c *TCPConn) SetReadDeadline(t time.Time) error {
	c.mu.Lock()
	closed := c.closed
	c.rdl = t
	c.mu.Unlock()
	if closed {
		return opErr("set", c, net.ErrClosed)
	}
	c.rd.kick()
	return nil
}
func (c *TCPConn) SetWriteDeadline(t time.Time) error {
	c.mu.Lock()
	closed := c.closed
	c.wdl = t
	c.mu.Unlock()
	if closed {
		return opErr("set", c, net.ErrClosed)
	}
	c.wr.kick()
	return nil
}
func (c *TCPConn) SetLinger(sec int) error {
	c.mu.Lock()
	defer c.mu.Unlock()
	if c.closed {
		return opErr("set", c, net.ErrClosed)
	}
	c.Linger, c.lingerSet = sec, true
	return nil
}
func (c *TCPConn) SetKeepAlive(bool) error               { return nil }
func (c *TCPConn) SetKeepAlivePeriod(time.Duration) error { return nil }
func (c *TCPConn) SetNoDelay(bool) error                  { return nil }
func (c *TCPConn) SetReadBuffer(int) error                { return nil }
func (c *TCPConn) SetWriteBuffer(int) error               { return nil }

// Dialer replaces net.Dialer.
type Dialer struct {
	Timeout   time.Duration
	Deadline  time.Time
	LocalAddr net.Addr
	KeepAlive time.Duration
	DualStack bool
	FallbackDelay time.Duration
	Resolver  *net.Resolver
	Cancel    <-chan struct{}
	Control   func(network, address string, c syscall.RawConn) error
}

func (d *Dialer) Dial(network, address string) (net.Conn, error) {
	return d.DialContext(context.Background(), network, address)
}

// Dial replaces net.Dial.
func Dial(network, address string) (net.Conn, error) {
	return (&Dialer{}).DialContext(context.Background(), network, address)
}

// DialTimeout replaces net.DialTimeout.
func DialTimeout(network, address string, timeout time.Duration) (net.Conn, error) {
	return (&Dialer{Timeout: timeout}).DialContext(context.Background(), network, address)
}

func (d *Dialer) DialContext(ctx context.Context, network, address string) (net.Conn, error) {
	n := Get()
	if n == nil {
		return nil, errors.New("simnet: no simulated network")
	}
	simrt.Pre("tcp.dial")
	defer simrt.Post()
	r := n.run
	rec := &DialRec{Addr: address, Step: r.Step(), T: r.Now(), ConnID: -1}
	n.mu.Lock()
	n.Dials = append(n.Dials, rec)
	srv := n.Servers[address]
	if srv == nil && n.Lookup != nil {
		srv = n.Lookup(address)
	}
	n.mu.Unlock()
	simrt.Event("tcp.dial:" + address)
	if srv == nil {
		srv = &Server{Mode: Refuse, ConnectTime: time.Millisecond}
	}
	n.mu.Lock()
	if n.MaxOpen > 0 && n.open >= n.MaxOpen {
		n.mu.Unlock()
		simrt.Fault("fd-limit")
		rec.EndT = r.Now()
		e := &net.OpError{Op: "dial", Net: network, Addr: addr(address), Err: os.NewSyscallError("socket", syscall.EMFILE)}
		rec.Err = e.Error()
		return nil, e
	}
	n.open++ // the socket exists from the start of the connect
	if n.open > n.MaxSeen {
		n.MaxSeen = n.open
	}
	n.mu.Unlock()
	released := false
	release := func() {
		n.mu.Lock()
		n.open--
		n.mu.Unlock()
	}
	fail := func(err error) (net.Conn, error) {
		if release != nil && !released {
			released = true
			release()
		}
		rec.EndT = r.Now()
		e := &net.OpError{Op: "dial", Net: network, Addr: addr(address), Err: err}
		rec.Err = e.Error()
		return nil, e
	}
	if err := ctx.Err(); err != nil {
		return fail(err)
	}
	// budget: the earliest of Timeout, Deadline, ctx deadline
	var limit time.Duration = -1
	if d.Timeout > 0 {
		limit = d.Timeout
	}
	if !d.Deadline.IsZero() {
		if u := time.Until(d.Deadline); limit < 0 || u < limit {
			limit = u
		}
	}
	var timeout <-chan time.Time
	if limit >= 0 {
		tm := time.NewTimer(limit)
		defer tm.Stop()
		timeout = tm.C
	}
	var outcome <-chan time.Time
	if srv.Mode != Blackhole {
		tm := time.NewTimer(srv.ConnectTime)
		defer tm.Stop()
		outcome = tm.C
	}
	select {
	case <-ctx.Done():
		return fail(ctx.Err())
	case <-timeout:
		return fail(timeoutErr{})
	case <-outcome:
	}
	if srv.Mode == Refuse {
		return fail(os.NewSyscallError("connect", syscall.ECONNREFUSED))
	}
	c, s := pair(n.BufCap, "10.255.255.1:40000", address)
	c.onClose = release
	c.sched = simrt.IsScheduled()
	s.sched = c.sched
	n.mu.Lock()
	dead := n.dead
	n.all = append(n.all, c, s)
	n.mu.Unlock()
	if dead {
		return fail(net.ErrClosed)
	}
	crec := &ConnRec{Addr: address, AcceptT: r.Now()}
	n.mu.Lock()
	crec.ID = len(n.Conns)
	n.Conns = append(n.Conns, crec)
	n.mu.Unlock()
	rec.ConnID = crec.ID
	rec.EndT = r.Now()
	if srv.Handler != nil {
		h := srv.Handler
		if simrt.IsScheduled() {
			r.GoWorld("tcp.server:"+address, func() { h(s, crec) })
		} else {
			go h(s, crec)
		}
	}
	return c, nil
}

// Transport points an http.Transport at the simulated dialer.
func Transport(t *http.Transport) *http.Transport {
	d := &Dialer{}
	t.DialContext = d.DialContext
	return t
}
