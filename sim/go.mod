module verif/sim

go 1.26

require (
	github.com/google/gopacket v1.1.20-0.20210304165259-20562ffb40f8
	github.com/v-byte-cpu/sx v0.0.0
	github.com/vishvananda/netlink v1.1.0
	go.uber.org/zap v1.23.0
	golang.org/x/net v0.0.0-20210813160813-60bc85c4be6d
)

require (
	github.com/anishathalye/porcupine v1.3.0
	github.com/vishvananda/netns v0.0.0-20191106174202-0a2b9b5464df // indirect
	go.uber.org/atomic v1.7.0 // indirect
	go.uber.org/multierr v1.6.0 // indirect
	golang.org/x/sys v0.0.0-20211205182925-97ca703d548d // indirect
)

replace github.com/v-byte-cpu/sx => /repo
