package command

import "github.com/spf13/cobra"

// SimRootCmd exposes the root command to the simulation harness (added by overlay only).
func SimRootCmd(version string) *cobra.Command { return newRootCmd(version) }
