package command

import (
	"context"
	"time"

	"github.com/spf13/cobra"
	"github.com/v-byte-cpu/sx/command/log"
	"github.com/v-byte-cpu/sx/pkg/scan"
)

// SimRootCmd exposes the root command to the simulation harness (added by overlay only).
func SimRootCmd(version string) *cobra.Command { return newRootCmd(version) }

// SimStartScanEngine exposes startScanEngine (logger goroutine, error drain, exit delay).
func SimStartScanEngine(ctx context.Context, engine scan.EngineResulter, logger log.Logger, exitDelay time.Duration) error {
	return startScanEngine(ctx, engine, newEngineConfig(withLogger(logger), withScanRange(&scan.Range{}), withExitDelay(exitDelay)))
}
