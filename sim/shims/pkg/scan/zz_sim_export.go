package scan

import "context"

// SimMergeErrChan exposes mergeErrChan to the simulation harness (added by overlay only).
func SimMergeErrChan(ctx context.Context, channels ...<-chan error) <-chan error {
	return mergeErrChan(ctx, channels...)
}
