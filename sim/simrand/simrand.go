// Package simrand replaces math/rand in the instrumented sx sources (import path
// substitution): the package-level functions draw from a per-run generator that is seeded
// from the run's chooser, so the "random" iteration order and spoofed header fields of sx are
// part of the replayable choice list.
package simrand

import (
	mrand "math/rand"
	"sync"

	"verif/sim/simrt"
)

type Rand = mrand.Rand
type Source = mrand.Source
type Source64 = mrand.Source64
type Zipf = mrand.Zipf

func New(src Source) *Rand            { return mrand.New(src) }
func NewSource(seed int64) Source     { return mrand.NewSource(seed) }
func NewZipf(r *Rand, s, v float64, imax uint64) *Zipf { return mrand.NewZipf(r, s, v, imax) }

var (
	mu  sync.Mutex
	run *simrt.Run
	rng *mrand.Rand
)

func get() *mrand.Rand {
	r := simrt.Current()
	if rng == nil || run != r {
		run = r
		var seed int64 = 1
		if r != nil {
			seed = int64(r.Choose("randseed.hi", 1<<30))<<30 | int64(r.Choose("randseed.lo", 1<<30))
		}
		rng = mrand.New(mrand.NewSource(seed))
	}
	return rng
}

// Seed is ignored: the simulation owns the seed.
func Seed(seed int64) {}

func Int() int                 { mu.Lock(); defer mu.Unlock(); return get().Int() }
func Intn(n int) int           { mu.Lock(); defer mu.Unlock(); return get().Intn(n) }
func Int31() int32             { mu.Lock(); defer mu.Unlock(); return get().Int31() }
func Int31n(n int32) int32     { mu.Lock(); defer mu.Unlock(); return get().Int31n(n) }
func Int63() int64             { mu.Lock(); defer mu.Unlock(); return get().Int63() }
func Int63n(n int64) int64     { mu.Lock(); defer mu.Unlock(); return get().Int63n(n) }
func Uint32() uint32           { mu.Lock(); defer mu.Unlock(); return get().Uint32() }
func Uint64() uint64           { mu.Lock(); defer mu.Unlock(); return get().Uint64() }
func Float32() float32         { mu.Lock(); defer mu.Unlock(); return get().Float32() }
func Float64() float64         { mu.Lock(); defer mu.Unlock(); return get().Float64() }
func ExpFloat64() float64      { mu.Lock(); defer mu.Unlock(); return get().ExpFloat64() }
func NormFloat64() float64     { mu.Lock(); defer mu.Unlock(); return get().NormFloat64() }
func Perm(n int) []int         { mu.Lock(); defer mu.Unlock(); return get().Perm(n) }
func Shuffle(n int, swap func(i, j int)) { mu.Lock(); defer mu.Unlock(); get().Shuffle(n, swap) }
func Read(p []byte) (int, error)         { mu.Lock(); defer mu.Unlock(); return get().Read(p) }
