// simgen instruments the non-test Go sources of v-byte-cpu/sx for deterministic simulation.
//
// It never touches the repository: it loads all packages with type information, renders a
// rewritten copy of every non-test file into an output directory and writes an overlay.json
// for `go build -overlay`.  Every goroutine creation and synchronisation operation becomes a
// scheduling point of verif/sim/simrt; environment accesses are redirected to the simulated
// world (see DESIGN.md 2.1).  Anything it cannot rewrite soundly is a hard error (exit 2).
package main

import (
	"encoding/json"
	"flag"
	"fmt"
	"go/ast"
	"go/parser"
	"go/token"
	"go/types"
	"os"
	"path/filepath"
	"sort"
	"strings"

	"golang.org/x/tools/go/packages"
)

const simMod = "verif/sim"

type subst struct {
	imp  string // import path of replacement package
	name string // local name used for it
	sel  string // new selector name ("" = same)
}

// package-qualified identifiers that are redirected: "pkgpath.Name" -> replacement
var selectorSubst = map[string]subst{
	"sync.WaitGroup":  {simMod + "/simrt", "xsimrt", ""},
	"sync.Mutex":      {simMod + "/simrt", "xsimrt", ""},
	"sync.RWMutex":    {simMod + "/simrt", "xsimrt", ""},
	"sync.Pool":       {simMod + "/simrt", "xsimrt", ""},
	"sync.Once":       {simMod + "/simrt", "xsimrt", ""},
	"runtime.NumCPU":  {simMod + "/simrt", "xsimrt", ""},
	"os.Stdout":       {simMod + "/simio", "xsimio", ""},
	"os.Stdin":        {simMod + "/simio", "xsimio", ""},
	"os.Stderr":       {simMod + "/simio", "xsimio", ""},
	"os.Open":         {simMod + "/simio", "xsimio", ""},
	"go.uber.org/zap.NewProduction": {simMod + "/simio", "xsimio", "NewZap"},
	"net.Interfaces":       {simMod + "/simhost", "xsimhost", ""},
	"net.InterfaceByName":  {simMod + "/simhost", "xsimhost", ""},
	"net.InterfaceByIndex": {simMod + "/simhost", "xsimhost", ""},
	"net.InterfaceAddrs":   {simMod + "/simhost", "xsimhost", ""},
	"net.Dialer":           {simMod + "/simnet", "xsimnet", ""},
	"net.TCPConn":          {simMod + "/simnet", "xsimnet", ""},
	"net.Dial":             {simMod + "/simnet", "xsimnet", ""},
	"net.DialTimeout":      {simMod + "/simnet", "xsimnet", ""},
	"github.com/vishvananda/netlink.RouteList": {simMod + "/simhost", "xsimhost", ""},
}

// import paths that are replaced wholesale (the replacement offers the same API surface)
var importSubst = map[string]string{
	"math/rand": simMod + "/simrand",
	"os/signal": simMod + "/simsignal",
	"github.com/google/gopacket/afpacket": simMod + "/simwire/afp",
}

type edit struct {
	start, end int
	text       string
}

type fileRewriter struct {
	pkg   *packages.Package
	file  *ast.File
	src   []byte
	fset  *token.FileSet
	rel   string
	info  *types.Info
	need  map[string]string // import path -> local name, to add
	skip  map[ast.Node]bool // comm-clause operations handled by their select
	recv2 map[*ast.UnaryExpr]bool
	pkgUses map[*types.PkgName]int // remaining uses per imported package name
	errs  []string
	nsites int
}

func (rw *fileRewriter) off(p token.Pos) int { return rw.fset.Position(p).Offset }

func (rw *fileRewriter) text(n ast.Node) string { return string(rw.src[rw.off(n.Pos()):rw.off(n.End())]) }

func (rw *fileRewriter) site(n ast.Node, kind string) string {
	rw.nsites++
	return fmt.Sprintf("%q", fmt.Sprintf("%s:%d:%s", rw.rel, rw.fset.Position(n.Pos()).Line, kind))
}

func (rw *fileRewriter) fail(n ast.Node, msg string) {
	rw.errs = append(rw.errs, fmt.Sprintf("%s: %s", rw.fset.Position(n.Pos()), msg))
}

func (rw *fileRewriter) use(imp, name string) string {
	rw.need[imp] = name
	return name
}

func (rw *fileRewriter) rt() string { return rw.use(simMod+"/simrt", "xsimrt") }

func unparen(e ast.Expr) ast.Expr {
	for {
		p, ok := e.(*ast.ParenExpr)
		if !ok {
			return e
		}
		e = p.X
	}
}

func isRecv(e ast.Expr) (*ast.UnaryExpr, bool) {
	u, ok := unparen(e).(*ast.UnaryExpr)
	if ok && u.Op == token.ARROW {
		return u, true
	}
	return nil, false
}

// pkgSel returns "importpath.Name" if e is a package-qualified identifier.
func (rw *fileRewriter) pkgSel(e ast.Expr) (string, *types.PkgName, bool) {
	s, ok := e.(*ast.SelectorExpr)
	if !ok {
		return "", nil, false
	}
	id, ok := s.X.(*ast.Ident)
	if !ok {
		return "", nil, false
	}
	pn, ok := rw.info.Uses[id].(*types.PkgName)
	if !ok {
		return "", nil, false
	}
	return pn.Imported().Path() + "." + s.Sel.Name, pn, true
}

func (rw *fileRewriter) isChan(e ast.Expr) bool {
	t := rw.info.TypeOf(e)
	if t == nil {
		return false
	}
	_, ok := t.Underlying().(*types.Chan)
	return ok
}

func (rw *fileRewriter) isNamed(t types.Type, pkg, name string) bool {
	for {
		if p, ok := t.(*types.Pointer); ok {
			t = p.Elem()
			continue
		}
		break
	}
	if a, ok := t.(*types.Alias); ok {
		t = types.Unalias(a)
	}
	n, ok := t.(*types.Named)
	if !ok {
		return false
	}
	o := n.Obj()
	return o.Pkg() != nil && o.Pkg().Path() == pkg && o.Name() == name
}

// prepare marks comm-clause operations and two-value receives.
func (rw *fileRewriter) prepare() {
	ast.Inspect(rw.file, func(n ast.Node) bool {
		switch x := n.(type) {
		case *ast.CommClause:
			switch c := x.Comm.(type) {
			case *ast.SendStmt:
				rw.skip[c] = true
			case *ast.ExprStmt:
				if u, ok := isRecv(c.X); ok {
					rw.skip[u] = true
				}
			case *ast.AssignStmt:
				if len(c.Rhs) == 1 {
					if u, ok := isRecv(c.Rhs[0]); ok {
						rw.skip[u] = true
					}
				}
			}
		case *ast.AssignStmt:
			if len(x.Lhs) == 2 && len(x.Rhs) == 1 {
				if u, ok := isRecv(x.Rhs[0]); ok {
					rw.recv2[u] = true
				}
			}
		case *ast.ValueSpec:
			if len(x.Names) == 2 && len(x.Values) == 1 {
				if u, ok := isRecv(x.Values[0]); ok {
					rw.recv2[u] = true
				}
			}
		case *ast.LabeledStmt:
			switch s := x.Stmt.(type) {
			case *ast.SelectStmt:
				rw.fail(x, "labeled select is not supported by simgen")
			case *ast.RangeStmt:
				if rw.isChan(s.X) {
					rw.fail(x, "labeled range over channel is not supported by simgen")
				}
			}
		case *ast.Ident:
			if pn, ok := rw.info.Uses[x].(*types.PkgName); ok {
				rw.pkgUses[pn]++
			}
		case *ast.SelectorExpr:
			if key, pn, ok := rw.pkgSel(x); ok {
				if _, ok := selectorSubst[key]; ok {
					rw.pkgUses[pn]--
				}
			}
		case *ast.CallExpr:
			if rw.callKind(x) == "sleep" {
				if _, pn, ok := rw.pkgSel(unparen(x.Fun)); ok {
					rw.pkgUses[pn]--
				}
			}
		}
		return true
	})
}

func (rw *fileRewriter) isSpecial(n ast.Node) bool {
	if rw.skip[n] {
		return false
	}
	switch x := n.(type) {
	case *ast.GoStmt, *ast.SelectStmt:
		return true
	case *ast.SendStmt:
		return true
	case *ast.UnaryExpr:
		if x.Op == token.ARROW {
			return true
		}
		if x.Op == token.AND {
			if cl, ok := unparen(x.X).(*ast.CompositeLit); ok && cl.Type != nil {
				if key, _, ok := rw.pkgSel(cl.Type); ok && key == "net/http.Transport" {
					return true
				}
			}
		}
	case *ast.RangeStmt:
		return rw.isChan(x.X)
	case *ast.ExprStmt:
		if c, ok := x.X.(*ast.CallExpr); ok && rw.isBlockingForeign(c) {
			return true
		}
	case *ast.CallExpr:
		return rw.callKind(x) != ""
	case *ast.SelectorExpr:
		if key, _, ok := rw.pkgSel(x); ok {
			_, ok := selectorSubst[key]
			return ok
		}
	case *ast.ImportSpec:
		return true
	}
	return false
}

func (rw *fileRewriter) isBlockingForeign(c *ast.CallExpr) bool {
	s, ok := c.Fun.(*ast.SelectorExpr)
	if !ok || len(c.Args) != 0 || s.Sel.Name != "Take" {
		return false
	}
	t := rw.info.TypeOf(c)
	return t != nil && rw.isNamed(t, "time", "Time")
}

func (rw *fileRewriter) callKind(c *ast.CallExpr) string {
	switch f := unparen(c.Fun).(type) {
	case *ast.Ident:
		if f.Name == "close" {
			if _, ok := rw.info.Uses[f].(*types.Builtin); ok {
				return "close"
			}
		}
	case *ast.SelectorExpr:
		if key, _, ok := rw.pkgSel(f); ok && key == "time.Sleep" && len(c.Args) == 1 {
			return "sleep"
		}
		if f.Sel.Name == "Addrs" && len(c.Args) == 0 {
			if t := rw.info.TypeOf(f.X); t != nil && rw.isNamed(t, "net", "Interface") {
				return "addrs"
			}
		}
	}
	if len(c.Args) == 0 {
		if t := rw.info.TypeOf(c.Fun); t != nil && rw.isNamed(t, "context", "CancelFunc") {
			if _, isptr := t.(*types.Pointer); !isptr {
				return "cancel"
			}
		}
	}
	return ""
}

// render produces the rewritten source text of n (n itself is treated generically, its
// outermost special descendants are replaced).
func (rw *fileRewriter) render(n ast.Node) string {
	if n == nil {
		return ""
	}
	var specials []ast.Node
	ast.Inspect(n, func(m ast.Node) bool {
		if m == nil {
			return false
		}
		if m != n && rw.isSpecial(m) {
			specials = append(specials, m)
			return false
		}
		return true
	})
	var sb strings.Builder
	pos := rw.off(n.Pos())
	for _, s := range specials {
		st, en := rw.off(s.Pos()), rw.off(s.End())
		sb.Write(rw.src[pos:st])
		sb.WriteString(rw.renderSpecial(s))
		pos = en
	}
	sb.Write(rw.src[pos:rw.off(n.End())])
	return sb.String()
}

func (rw *fileRewriter) any(n ast.Node) string {
	if n == nil {
		return ""
	}
	if rw.isSpecial(n) {
		return rw.renderSpecial(n)
	}
	return rw.render(n)
}

func (rw *fileRewriter) stmts(list []ast.Stmt) string {
	var sb strings.Builder
	for _, s := range list {
		sb.WriteString(rw.any(s))
		sb.WriteString("\n")
	}
	return sb.String()
}

func (rw *fileRewriter) renderSpecial(n ast.Node) string {
	switch x := n.(type) {
	case *ast.ImportSpec:
		return rw.renderImport(x)
	case *ast.GoStmt:
		return rw.renderGo(x)
	case *ast.SendStmt:
		return fmt.Sprintf("{ %s.Pre(%s); %s <- %s; %s.Post() }", rw.rt(), rw.site(x, "send"), rw.any(x.Chan), rw.any(x.Value), rw.rt())
	case *ast.UnaryExpr:
		if x.Op == token.ARROW {
			fn := "Recv"
			if rw.recv2[x] {
				fn = "Recv2"
			}
			return fmt.Sprintf("%s.%s(%s, %s)", rw.rt(), fn, rw.site(x, "recv"), rw.any(x.X))
		}
		// &http.Transport{...}
		return fmt.Sprintf("%s.Transport(%s)", rw.use(simMod+"/simnet", "xsimnet"), rw.render(x))
	case *ast.RangeStmt:
		return rw.renderRange(x)
	case *ast.SelectStmt:
		return rw.renderSelect(x)
	case *ast.ExprStmt:
		return fmt.Sprintf("{ %s.Pre(%s); %s; %s.Post() }", rw.rt(), rw.site(x, "blocking-call"), rw.render(x), rw.rt())
	case *ast.CallExpr:
		switch rw.callKind(x) {
		case "close":
			return fmt.Sprintf("%s.Close(%s, %s)", rw.rt(), rw.site(x, "close"), rw.any(x.Args[0]))
		case "cancel":
			return fmt.Sprintf("%s.Cancel(%s, %s)", rw.rt(), rw.site(x, "cancel"), rw.any(x.Fun))
		case "sleep":
			return fmt.Sprintf("%s.Sleep(%s, %s)", rw.rt(), rw.site(x, "sleep"), rw.any(x.Args[0]))
		case "addrs":
			recv := unparen(x.Fun).(*ast.SelectorExpr).X
			arg := rw.any(recv)
			if _, isptr := rw.info.TypeOf(recv).(*types.Pointer); !isptr {
				arg = "&" + arg
			}
			return fmt.Sprintf("%s.Addrs(%s)", rw.use(simMod+"/simhost", "xsimhost"), arg)
		}
	case *ast.SelectorExpr:
		key, _, _ := rw.pkgSel(x)
		s := selectorSubst[key]
		name := s.sel
		if name == "" {
			name = x.Sel.Name
		}
		return rw.use(s.imp, s.name) + "." + name
	}
	rw.fail(n, fmt.Sprintf("internal: unhandled special node %T", n))
	return rw.text(n)
}

func (rw *fileRewriter) renderImport(x *ast.ImportSpec) string {
	path := strings.Trim(x.Path.Value, "\"`")
	var pn *types.PkgName
	if x.Name != nil {
		pn, _ = rw.info.Defs[x.Name].(*types.PkgName)
	} else {
		pn, _ = rw.info.Implicits[x].(*types.PkgName)
	}
	if np, ok := importSubst[path]; ok {
		name := ""
		if pn != nil {
			name = pn.Name()
		} else if x.Name != nil {
			name = x.Name.Name
		}
		return fmt.Sprintf("%s %q", name, np)
	}
	if pn != nil && rw.pkgUses[pn] <= 0 && pn.Name() != "_" && pn.Name() != "." {
		// every use was redirected to the simulated world
		return "_ " + x.Path.Value
	}
	return rw.text(x)
}

func (rw *fileRewriter) renderGo(x *ast.GoStmt) string {
	c := x.Call
	var sb strings.Builder
	sb.WriteString("{\n")
	fun := ""
	if fl, ok := unparen(c.Fun).(*ast.FuncLit); ok {
		fun = "(" + rw.render(fl) + ")"
		if len(c.Args) == 0 {
			return fmt.Sprintf("%s.Go(%s, %s)", rw.rt(), rw.site(x, "go"), rw.render(fl))
		}
	} else {
		if rw.callKind(c) != "" {
			rw.fail(x, "go statement on a synchronisation builtin is not supported by simgen")
		}
		sb.WriteString("_sim_f := " + rw.any(c.Fun) + "\n")
		fun = "_sim_f"
	}
	var names []string
	for i, a := range c.Args {
		nm := fmt.Sprintf("_sim_a%d", i)
		names = append(names, nm)
		sb.WriteString(nm + " := " + rw.any(a) + "\n")
	}
	if c.Ellipsis.IsValid() && len(names) > 0 {
		names[len(names)-1] += "..."
	}
	sb.WriteString(fmt.Sprintf("%s.Go(%s, func() { %s(%s) })\n}", rw.rt(), rw.site(x, "go"), fun, strings.Join(names, ", ")))
	return sb.String()
}

func isBlank(e ast.Expr) bool {
	id, ok := e.(*ast.Ident)
	return ok && id.Name == "_"
}

func (rw *fileRewriter) renderRange(x *ast.RangeStmt) string {
	if x.Value != nil {
		rw.fail(x, "range over channel with two iteration variables")
	}
	var sb strings.Builder
	rt := rw.rt()
	sb.WriteString("{\n_sim_ch := " + rw.any(x.X) + "\n")
	sb.WriteString("var _sim_ok bool\n")
	target := "_"
	if x.Key != nil && !isBlank(x.Key) {
		if x.Tok == token.DEFINE {
			name := rw.text(x.Key)
			sb.WriteString(fmt.Sprintf("%s := %s.Zero(_sim_ch)\n_ = %s\n", name, rt, name))
			target = name
		} else {
			target = rw.any(x.Key)
		}
	}
	sb.WriteString("for {\n")
	sb.WriteString(fmt.Sprintf("%s, _sim_ok = %s.Recv2(%s, _sim_ch)\n", target, rt, rw.site(x, "range")))
	sb.WriteString("if !_sim_ok { break }\n")
	sb.WriteString(rw.stmts(x.Body.List))
	sb.WriteString("}\n}")
	return sb.String()
}

func (rw *fileRewriter) renderSelect(x *ast.SelectStmt) string {
	rt := rw.rt()
	site := rw.site(x, "select")
	clauses := x.Body.List
	if len(clauses) == 0 {
		return fmt.Sprintf("{ %s.Pre(%s); select {} }", rt, site)
	}
	var hoist, polls, blocking, bodies strings.Builder
	n := 0
	defIdx := -1
	for ci, cl := range clauses {
		cc := cl.(*ast.CommClause)
		if cc.Comm == nil {
			defIdx = ci
			continue
		}
		i := n
		n++
		var op string
		var bind string
		switch c := cc.Comm.(type) {
		case *ast.SendStmt:
			hoist.WriteString(fmt.Sprintf("_sim_c%d := %s\n", i, rw.any(c.Chan)))
			hoist.WriteString(fmt.Sprintf("_sim_v%d := %s.ZeroS(_sim_c%d)\n_sim_v%d = %s\n", i, rt, i, i, rw.any(c.Value)))
			op = fmt.Sprintf("_sim_c%d <- _sim_v%d", i, i)
		case *ast.ExprStmt:
			u, _ := isRecv(c.X)
			hoist.WriteString(fmt.Sprintf("_sim_c%d := %s\n", i, rw.any(u.X)))
			op = fmt.Sprintf("<-_sim_c%d", i)
		case *ast.AssignStmt:
			u, _ := isRecv(c.Rhs[0])
			hoist.WriteString(fmt.Sprintf("_sim_c%d := %s\n", i, rw.any(u.X)))
			hoist.WriteString(fmt.Sprintf("_sim_r%d := %s.Zero(_sim_c%d)\nvar _sim_k%d bool\n_, _ = _sim_r%d, _sim_k%d\n", i, rt, i, i, i, i))
			op = fmt.Sprintf("_sim_r%d, _sim_k%d = <-_sim_c%d", i, i, i)
			allBlank := true
			for _, l := range c.Lhs {
				if !isBlank(l) {
					allBlank = false
				}
			}
			if !allBlank {
				tok := c.Tok.String()
				var lhs []string
				for _, l := range c.Lhs {
					if c.Tok == token.DEFINE {
						lhs = append(lhs, rw.text(l))
					} else {
						lhs = append(lhs, rw.any(l))
					}
				}
				rhs := fmt.Sprintf("_sim_r%d", i)
				if len(c.Lhs) == 2 {
					rhs += fmt.Sprintf(", _sim_k%d", i)
				}
				bind = fmt.Sprintf("%s %s %s\n", strings.Join(lhs, ", "), tok, rhs)
				if c.Tok == token.DEFINE {
					for _, l := range c.Lhs {
						if !isBlank(l) {
							bind += "_ = " + rw.text(l) + "\n"
						}
					}
				}
			}
		default:
			rw.fail(cc, "unsupported comm clause")
		}
		polls.WriteString(fmt.Sprintf("case %d:\nselect {\ncase %s:\n_sim_i = %d\ndefault:\n}\n", i, op, ci))
		blocking.WriteString(fmt.Sprintf("case %s:\n_sim_i = %d\n", op, ci))
		bodies.WriteString(fmt.Sprintf("case %d:\n%s%s", ci, bind, rw.stmts(cc.Body)))
	}
	var sb strings.Builder
	sb.WriteString("{\n")
	sb.WriteString(hoist.String())
	sb.WriteString("_sim_i := -1\n")
	sb.WriteString(fmt.Sprintf("%s.Pre(%s)\n", rt, site))
	if n > 0 {
		sb.WriteString(fmt.Sprintf("for _, _sim_j := range %s.SelectOrder(%d) {\nswitch _sim_j {\n%s}\nif _sim_i >= 0 { break }\n}\n", rt, n, polls.String()))
	}
	sb.WriteString("if _sim_i < 0 {\n")
	if defIdx >= 0 {
		sb.WriteString(fmt.Sprintf("_sim_i = %d\n", defIdx))
	} else {
		sb.WriteString("select {\n" + blocking.String() + "}\n")
	}
	sb.WriteString("}\n")
	sb.WriteString(rt + ".Post()\n")
	sb.WriteString("switch _sim_i {\n")
	sb.WriteString(bodies.String())
	if defIdx >= 0 {
		sb.WriteString(fmt.Sprintf("case %d:\n%s", defIdx, rw.stmts(clauses[defIdx].(*ast.CommClause).Body)))
	}
	sb.WriteString("default:\npanic(\"simgen: impossible select index\")\n}\n}")
	return sb.String()
}

func (rw *fileRewriter) finish() string {
	body := rw.render(rw.file)
	// prefix = everything before the package clause's end (build tags, comments, "package x")
	prefixEnd := rw.off(rw.file.Name.End()) - rw.off(rw.file.Pos())
	head := string(rw.src[:rw.off(rw.file.Pos())])
	out := head + body[:prefixEnd] + "\n"
	var imps []string
	for p := range rw.need {
		imps = append(imps, p)
	}
	sort.Strings(imps)
	for _, p := range imps {
		out += fmt.Sprintf("import %s %q\n", rw.need[p], p)
	}
	rest := body[prefixEnd:]
	return out + rest
}

func main() {
	repo := flag.String("repo", "/repo", "repository working tree")
	out := flag.String("out", "", "output directory (scratch)")
	shims := flag.String("shims", "", "directory with export shim files: <shims>/<pkgdir>/<file>.go are added to the overlay")
	flag.Parse()
	if *out == "" {
		fmt.Fprintln(os.Stderr, "simgen: -out required")
		os.Exit(2)
	}
	absRepo, _ := filepath.Abs(*repo)
	cfg := &packages.Config{
		Mode: packages.NeedName | packages.NeedFiles | packages.NeedCompiledGoFiles | packages.NeedSyntax | packages.NeedTypes | packages.NeedTypesInfo,
		Dir:  absRepo,
		Env:  append(os.Environ(), "GOFLAGS=-mod=mod", "GOPROXY=off", "GOSUMDB=off", "GOTOOLCHAIN=local", "CGO_ENABLED=1"),
	}
	pkgs, err := packages.Load(cfg, "./...")
	if err != nil {
		fmt.Fprintln(os.Stderr, "simgen: load:", err)
		os.Exit(2)
	}
	overlay := map[string]string{}
	bad := false
	totalSites := 0
	totalTicks := 0
	for _, p := range pkgs {
		for _, e := range p.Errors {
			fmt.Fprintln(os.Stderr, "simgen: package error:", e)
			bad = true
		}
		for i, f := range p.Syntax {
			name := p.CompiledGoFiles[i]
			if !strings.HasPrefix(name, absRepo+"/") || !strings.HasSuffix(name, ".go") {
				continue // cgo-generated or foreign
			}
			rel := strings.TrimPrefix(name, absRepo+"/")
			src, err := os.ReadFile(name)
			if err != nil {
				fmt.Fprintln(os.Stderr, "simgen:", err)
				os.Exit(2)
			}
			rw := &fileRewriter{pkg: p, file: f, src: src, fset: p.Fset, rel: rel, info: p.TypesInfo,
				need: map[string]string{}, skip: map[ast.Node]bool{}, recv2: map[*ast.UnaryExpr]bool{},
				pkgUses: map[*types.PkgName]int{}}
			rw.prepare()
			text := rw.finish()
			if !strings.HasSuffix(rel, "_easyjson.go") {
				t2, n, err := addTicks(text, rel)
				if err != nil {
					fmt.Fprintln(os.Stderr, "simgen: tick pass:", rel, err)
					bad = true
				} else {
					text = t2
					totalTicks += n
				}
			}
			for _, e := range rw.errs {
				fmt.Fprintln(os.Stderr, "simgen:", e)
				bad = true
			}
			totalSites += rw.nsites
			dst := filepath.Join(*out, "src", rel)
			os.MkdirAll(filepath.Dir(dst), 0o755)
			if err := os.WriteFile(dst, []byte(text), 0o644); err != nil {
				fmt.Fprintln(os.Stderr, "simgen:", err)
				os.Exit(2)
			}
			overlay[name] = dst
		}
	}
	if *shims != "" {
		filepath.Walk(*shims, func(path string, fi os.FileInfo, err error) error {
			if err != nil || fi.IsDir() || !strings.HasSuffix(path, ".go") {
				return nil
			}
			rel, _ := filepath.Rel(*shims, path)
			overlay[filepath.Join(absRepo, rel)] = path
			return nil
		})
	}
	if bad {
		os.Exit(2)
	}
	data, _ := json.MarshalIndent(map[string]interface{}{"Replace": overlay}, "", " ")
	if err := os.WriteFile(filepath.Join(*out, "overlay.json"), data, 0o644); err != nil {
		fmt.Fprintln(os.Stderr, "simgen:", err)
		os.Exit(2)
	}
	fmt.Printf("simgen: %d files, %d instrumentation sites, %d preemption ticks\n", len(overlay), totalSites, totalTicks)
}


// addTicks is the second pass: it parses the rewritten file and inserts a preemption tick
// before every statement of every block, case clause and comm clause.  A tick is a potential
// scheduling point *between two ordinary statements* (no channel or lock operation in sight):
// in runs where preemption is enabled the scheduler parks a goroutine there with a seeded
// pseudo-random decision, which lets another goroutine run in the middle of a non-atomic
// sequence of reads and writes of shared data.  Data races thereby show through their
// consequences (mixed-up fields, stale memo entries), which channel-level scheduling cannot do.
func addTicks(text, rel string) (string, int, error) {
	fset := token.NewFileSet()
	f, err := parser.ParseFile(fset, rel, text, parser.ParseComments)
	if err != nil {
		return "", 0, err
	}
	var offs []int
	clauseBlocks := map[*ast.BlockStmt]bool{} // bodies of switch / select: their list holds the clauses
	add := func(list []ast.Stmt) {
		for _, st := range list {
			switch st.(type) {
			case *ast.EmptyStmt:
				continue
			}
			offs = append(offs, fset.Position(st.Pos()).Offset)
		}
	}
	ast.Inspect(f, func(n ast.Node) bool {
		switch x := n.(type) {
		case *ast.FuncDecl:
			if x.Name.Name == "init" && x.Recv == nil {
				return false // package initialisation runs before any run exists
			}
		case *ast.SwitchStmt:
			clauseBlocks[x.Body] = true
		case *ast.TypeSwitchStmt:
			clauseBlocks[x.Body] = true
		case *ast.SelectStmt:
			clauseBlocks[x.Body] = true
		case *ast.BlockStmt:
			if !clauseBlocks[x] {
				add(x.List)
			}
		case *ast.CaseClause:
			add(x.Body)
		case *ast.CommClause:
			add(x.Body)
		}
		return true
	})
	if len(offs) == 0 {
		return text, 0, nil
	}
	sort.Ints(offs)
	var sb strings.Builder
	pos := 0
	for i, o := range offs {
		if i > 0 && o == offs[i-1] {
			continue
		}
		sb.WriteString(text[pos:o])
		sb.WriteString("xsimtick.Tick(); ")
		pos = o
	}
	sb.WriteString(text[pos:])
	out := sb.String()
	// import under a private alias, as a separate declaration right after the package clause
	pe := fset.Position(f.Name.End()).Offset
	out = out[:pe] + "\nimport xsimtick \"" + simMod + "/simrt\"\n" + out[pe:]
	return out, len(offs), nil
}
